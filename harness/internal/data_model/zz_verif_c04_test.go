//go:build verif

package data_model

import (
	"bytes"
	"fmt"
	"math"
	"math/big"
	mrand "math/rand/v2"
	"strings"
	"testing"

	"github.com/hrissan/tdigest"
	"pgregory.net/rand"

	"github.com/VKCOM/statshouse/internal/data_model/gen2/tlstatshouse"
	"github.com/VKCOM/statshouse/internal/format"

	"github.com/VKCOM/statshouse/internal/zzverif/verifkit"
)

// C04 — aggregation results do not depend on merge order or grouping.
//
// Unit "data_model": two phases.
//   values  — multisets of events (counter / value / value array / histogram / small unique sets /
//             percentile values, each with a host tag) are grouped into leaves through the real
//             Add*/Apply* API and the leaves merged left-to-right in random permutations, along random
//             binary trees (MultiValue.Merge, ItemValue.Merge) and event-by-event into one accumulator.
//   uniques — multisets of unique sets large enough to thin the sketch are merged in permutations and
//             trees through MultiValue.Merge (ChUnique.Merge), ChUnique.MergeRead (the serialized merge of
//             the aggregator) and a mix of both; the arbiter is one more grouping of the same multiset:
//             every item inserted one by one into a single sketch (ChUnique.Insert only).

type c04Event struct {
	Kind  string       `json:"kind"` // C counter, V value, P percentile value, A value array(+histogram), U uniques
	Host  TagUnion     `json:"host"`
	Count float64      `json:"count"`
	Vals  []float64    `json:"vals,omitempty"`
	Hist  [][2]float64 `json:"hist,omitempty"`
	Total float64      `json:"total,omitempty"` // totalCount handed to ApplyValues
}

func c04Apply(rng *rand.Rand, mv *MultiValue, e *c04Event) {
	switch e.Kind {
	case "C":
		mv.AddCounterHost(rng, e.Count, e.Host)
	case "V":
		mv.AddValueCounterHost(rng, e.Vals[0], e.Count, e.Host)
	case "P":
		mv.AddValueCounterHostPercentile(rng, e.Vals[0], e.Count, e.Host, AgentPercentileCompression)
	case "A":
		mv.ApplyValues(rng, e.Hist, e.Vals, e.Count, e.Total, e.Host, AgentPercentileCompression, len(e.Hist) != 0)
	case "U":
		hashes := make([]int64, len(e.Vals))
		for i, v := range e.Vals {
			hashes[i] = int64(v)
		}
		mv.ApplyUnique(rng, hashes, e.Count, e.Host)
	}
}

func c04CloneHLL(ch ChUnique) ChUnique {
	if ch.buf != nil {
		ch.buf = append([]uint32(nil), ch.buf...)
	}
	return ch
}

func c04CloneMV(mv *MultiValue) MultiValue {
	c := *mv
	c.HLL = c04CloneHLL(mv.HLL)
	if mv.ValueTDigest != nil {
		// MultiValue.Merge adopts the argument's digest by reference; give every trial its own
		nd := tdigest.NewWithCompression(mv.ValueTDigest.Compression)
		nd.Merge(mv.ValueTDigest)
		c.ValueTDigest = nd
	}
	return c
}

func c04HostString(h TagUnion) string {
	if h.I != 0 {
		return fmt.Sprintf("#%d", h.I)
	}
	return "s:" + h.S
}

var c04Hosts = []TagUnion{{}, {I: 1}, {I: 2}, {I: 3}, {I: -7}, {S: "a"}, {S: "b"}, {S: "host-c"}}

type c04ValueCase struct {
	events [][]c04Event // grouped by leaf
	exact  bool
}

func c04GenValue(rnd *mrand.Rand, exact bool, ties bool) float64 {
	if ties {
		return float64(rnd.IntN(3) - 1) // extremes are contributed by several hosts
	}
	if exact {
		switch rnd.IntN(6) {
		case 0:
			return float64(rnd.IntN(7) - 3) // many ties
		case 1:
			return float64(rnd.IntN(200001) - 100000)
		case 2:
			return float64(rnd.IntN(64)) / 8 // dyadic fractions are exact as well
		default:
			return float64(rnd.IntN(21) - 10)
		}
	}
	switch rnd.IntN(8) {
	case 0:
		return (rnd.Float64() - 0.5) * 2 * math.MaxFloat32
	case 1:
		return rnd.NormFloat64() * 1e-9
	case 2:
		return float64(rnd.IntN(7)-3) / 3
	case 3:
		return math.Copysign(0, -1)
	case 4:
		return float64(rnd.Int64N(1<<62)) - (1 << 61)
	default:
		return rnd.NormFloat64() * 1000
	}
}

func c04GenCount(rnd *mrand.Rand, exact bool) float64 {
	if exact {
		if rnd.IntN(8) == 0 {
			return float64(1+rnd.IntN(40)) / 4
		}
		return float64(1 + rnd.IntN(100))
	}
	switch rnd.IntN(5) {
	case 0:
		return float64(1+rnd.IntN(1000)) / 7
	case 1:
		return rnd.Float64()*1e6 + 1e-3
	case 2:
		if rnd.IntN(4) == 0 {
			return rnd.Float64() * math.MaxFloat32 // CounterHostDistribution clamps these weights
		}
		return float64(1 + rnd.IntN(5))
	default:
		return float64(1 + rnd.IntN(5))
	}
}

// counter of an event that also carries n values: omitted (= n, what Shard.ApplyValues/ApplyUnique substitute for 0) or
// explicit and different from n — 7/3, 10/4, 1/3, huge/small, ...: the values are then a subsample of weight counter/n
func c04ExplicitCounter(rnd *mrand.Rand, n float64) float64 {
	switch rnd.IntN(8) {
	case 0, 1:
		return n
	case 2:
		return 7
	case 3:
		return []float64{1, 10, 11, 5, 3, 13}[rnd.IntN(6)]
	case 4:
		return float64(1000000 + rnd.IntN(1000))
	case 5:
		return 2*n + 1
	default:
		return float64(1 + rnd.IntN(20))
	}
}

// exact contribution of one event as the API documents it: counter, Σ v·(counter/len), Σ v²·(counter/len).
// representable = the three are float64 values whose sums in any order stay exact, and the products the code has to
// form on the way (Σv·counter, Σv²·counter) fit 53 bits.
func c04ExactContribution(e *c04Event) (cnt, sum, sq *big.Rat, representable bool) {
	rat := func(f float64) *big.Rat { return new(big.Rat).SetFloat64(f) }
	cnt, sum, sq = new(big.Rat), new(big.Rat), new(big.Rat)
	add := func(v, w float64) {
		rv, rw := rat(v), rat(w)
		sum.Add(sum, new(big.Rat).Mul(rv, rw))
		sq.Add(sq, new(big.Rat).Mul(new(big.Rat).Mul(rv, rv), rw))
	}
	if e.Count > 0 {
		cnt = rat(e.Count)
	}
	n := 0.0
	switch e.Kind {
	case "V", "P":
		add(e.Vals[0], e.Count)
	case "A":
		n = e.Total
	case "U":
		n = float64(len(e.Vals))
	}
	fits := func(r *big.Rat, bits uint) bool {
		lim := new(big.Rat).SetInt(new(big.Int).Lsh(big.NewInt(1), bits))
		return new(big.Rat).Abs(r).Cmp(lim) < 0
	}
	representable = true
	if n > 0 {
		for _, v := range e.Vals {
			add(v, 1)
		}
		for _, h := range e.Hist {
			add(h[0], h[1])
		}
		if e.Count != n {
			c := rat(e.Count)
			sum.Mul(sum, c)
			sq.Mul(sq, c)
			representable = fits(sum, 40) && fits(sq, 40) // with denominators ≤ 2^10 the products need < 2^50 units
			sum.Quo(sum, rat(n))
			sq.Quo(sq, rat(n))
		}
	}
	for _, r := range []*big.Rat{cnt, sum, sq} {
		_, exact := r.Float64()
		if !exact || !fits(r, 32) || r.Denom().Cmp(big.NewInt(1024)) > 0 {
			representable = false
		}
	}
	return
}

func c04GenValueCase(rnd *mrand.Rand) c04ValueCase {
	c := c04ValueCase{exact: rnd.IntN(3) != 0}
	nLeaves := 2 + rnd.IntN(7)
	if rnd.IntN(8) == 0 {
		nLeaves = 2 + rnd.IntN(39)
	}
	nHosts := 1 + rnd.IntN(len(c04Hosts))
	hostOff := rnd.IntN(len(c04Hosts))
	counterOnly := rnd.IntN(8) == 0
	ties := rnd.IntN(3) == 0
	scaled := c.exact && !counterOnly && rnd.IntN(3) == 0
	ranges := c.exact && !counterOnly && !scaled && rnd.IntN(3) == 0 // every leaf is a [lo, hi] range: enclosing, enclosed, overlapping, disjoint, equal
	for l := 0; l < nLeaves; l++ {
		nEv := 1
		if rnd.IntN(3) == 0 {
			nEv = 1 + rnd.IntN(4)
		}
		var evs []c04Event
		for k := 0; k < nEv; k++ {
			e := c04Event{Host: c04Hosts[(hostOff+rnd.IntN(nHosts))%len(c04Hosts)], Count: c04GenCount(rnd, c.exact)}
			kind := rnd.IntN(12)
			if scaled && rnd.IntN(3) != 0 {
				kind = 9 + rnd.IntN(3) // value arrays, histograms and unique sets carrying their own counter
			}
			if counterOnly {
				kind = 0
			}
			if ranges {
				lo := rnd.IntN(11)
				hi := lo + rnd.IntN(11-lo)
				e.Kind, e.Vals, e.Total = "A", []float64{float64(lo), float64(hi)}, 2
				if rnd.IntN(3) != 0 {
					e.Count = 2
				} else {
					e.Count = float64(2 * (1 + rnd.IntN(5)))
				}
				evs = append(evs, e)
				continue
			}
			switch {
			case kind < 3:
				e.Kind = "C"
			case kind < 8:
				e.Kind = "V"
				e.Vals = []float64{c04GenValue(rnd, c.exact, ties)}
				if rnd.IntN(50) == 0 {
					e.Count = 0 // counter == 0 is allowed when a value is set
				}
			case kind < 9:
				e.Kind = "P"
				e.Vals = []float64{c04GenValue(rnd, c.exact, ties)}
			case kind < 11:
				e.Kind = "A"
				for j := rnd.IntN(4); j >= 0; j-- {
					e.Vals = append(e.Vals, c04GenValue(rnd, c.exact, ties))
				}
				e.Total = float64(len(e.Vals))
				if rnd.IntN(3) == 0 {
					for j := rnd.IntN(3); j >= 0; j-- {
						cc := float64(1 + rnd.IntN(5))
						e.Hist = append(e.Hist, [2]float64{c04GenValue(rnd, c.exact, ties), cc})
						e.Total += cc
					}
				}
				if c.exact {
					if rnd.IntN(2) == 0 { // one value repeated: Σv·counter/len is an integer whatever the ratio is
						for j := range e.Vals {
							e.Vals[j] = e.Vals[0]
						}
						for j := range e.Hist {
							e.Hist[j][0] = e.Vals[0]
						}
					}
					e.Count = c04ExplicitCounter(rnd, e.Total)
				} else if rnd.IntN(2) == 0 {
					e.Count = e.Total
				}
			default:
				e.Kind = "U"
				for j := rnd.IntN(5); j >= 0; j-- {
					if c.exact {
						e.Vals = append(e.Vals, float64(rnd.IntN(2001)-1000))
					} else {
						e.Vals = append(e.Vals, float64(rnd.Int64()>>uint(rnd.IntN(40))))
					}
				}
				if c.exact {
					if rnd.IntN(2) == 0 {
						for j := range e.Vals {
							e.Vals[j] = e.Vals[0]
						}
					}
					e.Count = c04ExplicitCounter(rnd, float64(len(e.Vals)))
				} else if rnd.IntN(2) == 0 {
					e.Count = float64(len(e.Vals))
				}
			}
			evs = append(evs, e)
		}
		c.events = append(c.events, evs)
	}
	return c
}

// observation of one merge result
type c04Obs struct {
	count, min, max, sum, sumsq float64
	set                          bool
	minHost, maxHost, cntHost    TagUnion
	uniq                         uint64
}

func c04Observe(mv *MultiValue) c04Obs {
	return c04Obs{count: mv.Value.Count(), min: mv.Value.ValueMin, max: mv.Value.ValueMax, sum: mv.Value.ValueSum, sumsq: mv.Value.ValueSumSquare,
		set: mv.Value.ValueSet, minHost: mv.Value.MinHostTag, maxHost: mv.Value.MaxHostTag, cntHost: mv.Value.MaxCounterHostTag, uniq: mv.HLL.Size(false)}
}

func c04IsDyadic(x float64) bool { // multiple of 2^-10 and small enough for exact sums
	return x*1024 == math.Trunc(x*1024) && math.Abs(x) < 1<<40
}

func c04RunValues(r *verifkit.Run, w *verifkit.Worker, n int, trials int) {
	rnd := w.Rnd
	rng := rand.New(r.SubSeed(fmt.Sprintf("values-rng/%d", w.Index)))
	for it := 0; it < n; it++ {
		c := c04GenValueCase(rnd)
		// leaves through the real API
		leaves := make([]MultiValue, len(c.events))
		var flat []c04Event
		for i, evs := range c.events {
			for k := range evs {
				c04Apply(rng, &leaves[i], &evs[k])
				flat = append(flat, evs[k])
			}
		}
		// exact reference of what the events contribute (integer-valued cases): every leaf is first compared with it
		useRat, ratRep, leafBroken := c.exact, true, false
		ratSum, ratSq := new(big.Rat), new(big.Rat)
		var ratAbs float64
		if useRat {
			for i, evs := range c.events {
				lSum, lSq := new(big.Rat), new(big.Rat)
				lRep := true
				var lAbs float64
				for k := range evs {
					_, es, eq, rep := c04ExactContribution(&evs[k])
					lSum.Add(lSum, es)
					lSq.Add(lSq, eq)
					lRep = lRep && rep
					f, _ := es.Float64()
					lAbs += math.Abs(f)
				}
				ratSum.Add(ratSum, lSum)
				ratSq.Add(ratSq, lSq)
				ratRep = ratRep && lRep
				ratAbs += lAbs
				if !leaves[i].Value.ValueSet {
					continue
				}
				wantS, _ := lSum.Float64()
				wantQ, _ := lSq.Float64()
				gotS, gotQ := leaves[i].Value.ValueSum, leaves[i].Value.ValueSumSquare
				w.Count("values.leaves.compared_with_exact_contribution", 1)
				bad := ""
				if lRep {
					w.Count("values.leaves.exactly_representable", 1)
					if gotS != wantS || gotQ != wantQ {
						bad = "contribution-not-exact"
					}
				} else if math.Abs(gotS-wantS) > 1e-9*lAbs || math.Abs(gotQ-wantQ) > 1e-9*wantQ {
					bad = "contribution"
				}
				if bad != "" {
					leafBroken = true
					r.Violation("C04/event-apply/"+bad, fmt.Sprintf("events applied to one value give sum %v sumsq %v, exactly Σv·(counter/len) = %v and Σv²·(counter/len) = %v", gotS, gotQ, lSum.RatString(), lSq.RatString()),
						map[string]any{"events": evs, "representable_float64": lRep})
				}
			}
			for _, evs := range c.events {
				for k := range evs {
					if (evs[k].Kind == "A" && evs[k].Count != evs[k].Total) || (evs[k].Kind == "U" && evs[k].Count != float64(len(evs[k].Vals))) {
						w.Count("values.events.counter_differs_from_number_of_values", 1)
					}
				}
			}
		}
		ratSumF, _ := ratSum.Float64()
		ratSqF, _ := ratSq.Float64()
		// reference from the contributions
		var refCount, refSum, refSumSq, absSum float64
		refMin, refMax := math.Inf(1), math.Inf(-1)
		refSet := false
		exact := true
		for i := range leaves {
			v := &leaves[i].Value
			refCount += v.Count()
			exact = exact && c04IsDyadic(v.Count())
			if !v.ValueSet {
				continue
			}
			refSet = true
			refSum += v.ValueSum
			refSumSq += v.ValueSumSquare
			absSum += math.Abs(v.ValueSum)
			refMin = math.Min(refMin, v.ValueMin)
			refMax = math.Max(refMax, v.ValueMax)
			exact = exact && c04IsDyadic(v.ValueSum) && c04IsDyadic(v.ValueSumSquare)
		}
		exact = exact && refSumSq < 1<<40 && refCount < 1<<40 && absSum < 1<<40
		// The bit-exact class needs more than well-behaved leaves: the event-by-event regrouping adds every EVENT's
		// counter and contribution in its own order, so each of them (and with the magnitude bounds every partial sum
		// of at most 160 terms) must be exactly representable: dyadic, denominator ≤ 2^10, magnitude < 2^32.
		// A counter like 817/7 or a counter/len ratio that does not divide sends the whole case to the tolerance class.
		for i := range flat {
			if !exact {
				break
			}
			if _, _, _, rep := c04ExactContribution(&flat[i]); !rep {
				exact = false
				w.Count("values.cases.sent_to_tolerance_class_by_an_event", 1)
			}
		}
		// hosts that contributed the extremes / any count (from the events, the finest contributions)
		minHosts, maxHosts, cntHosts := map[TagUnion]bool{}, map[TagUnion]bool{}, map[TagUnion]bool{}
		hostSet := map[TagUnion]bool{}
		valued := 0
		var refUniq ChUnique
		for i := range flat {
			e := &flat[i]
			hostSet[e.Host] = true
			if e.Count > 0 {
				cntHosts[e.Host] = true
			}
			if e.Kind == "A" && e.Total <= 0 {
				continue
			}
			vs := e.Vals
			for _, h := range e.Hist {
				vs = append(vs[:len(vs):len(vs)], h[0])
			}
			{ // Σ|term| over the events: the scale of the rounding error of any summation order
				scale := 1.0
				switch e.Kind {
				case "V", "P":
					scale = e.Count
				case "A":
					scale = e.Count / e.Total
				case "U":
					scale = e.Count / float64(len(e.Vals))
				}
				for _, v := range e.Vals {
					absSum += math.Abs(v) * scale
				}
				for _, h := range e.Hist {
					absSum += math.Abs(h[0]) * h[1] * scale
				}
			}
			if e.Kind != "C" {
				valued++
			}
			for _, v := range vs {
				if v == refMin {
					minHosts[e.Host] = true
				}
				if v == refMax {
					maxHosts[e.Host] = true
				}
				if e.Kind == "U" {
					refUniq.Insert(uint64(int64(v)))
				}
			}
		}
		witness := func() any {
			return map[string]any{"leaves": c.events, "exact_class": exact}
		}
		judge := func(how string, res *MultiValue, leafGrouping bool) {
			o := c04Observe(res)
			bad := func(key, f string, a ...any) {
				r.Violation("C04/"+key, fmt.Sprintf(f, a...), map[string]any{"how": how, "case": witness(),
					"got": fmt.Sprintf("%+v", o), "want": fmt.Sprintf("count=%v min=%v max=%v sum=%v sumsq=%v set=%v", refCount, refMin, refMax, refSum, refSumSq, refSet)})
			}
			near := func(a, b, scale float64) bool {
				return a == b || math.Abs(a-b) <= 1e-9*scale
			}
			if exact {
				if o.count != refCount {
					bad("value-merge/count", "count %v, contributions sum to %v (exact inputs)", o.count, refCount)
				}
			} else if !near(o.count, refCount, refCount) {
				bad("value-merge/count", "count %v, contributions sum to %v", o.count, refCount)
			}
			if o.set != refSet {
				bad("value-merge/value-set", "ValueSet=%v, contributions have values: %v", o.set, refSet)
			}
			if refSet && o.set {
				if o.min != refMin {
					bad("value-merge/min", "min %v, smallest contributed value %v", o.min, refMin)
				}
				if o.max != refMax {
					bad("value-merge/max", "max %v, largest contributed value %v", o.max, refMax)
				}
				if exact && leafGrouping {
					if o.sum != refSum || o.sumsq != refSumSq {
						bad("value-merge/sum-exact", "sum %v sumsq %v, exact inputs sum to %v / %v", o.sum, o.sumsq, refSum, refSumSq)
					}
				} else if !near(o.sum, refSum, absSum) || !near(o.sumsq, refSumSq, refSumSq) {
					bad("value-merge/sum", "sum %v sumsq %v, contributions sum to %v / %v", o.sum, o.sumsq, refSum, refSumSq)
				}
				if !minHosts[o.minHost] {
					bad("min-host/not-a-contributor", "min host %s did not contribute the minimum %v", c04HostString(o.minHost), refMin)
				}
				if !maxHosts[o.maxHost] {
					bad("max-host/not-a-contributor", "max host %s did not contribute the maximum %v", c04HostString(o.maxHost), refMax)
				}
			}
			if useRat && !leafBroken && refSet && o.set {
				// the same multiset must give the exact total whatever the order: bit-identical when every contribution is
				// representable, within rounding otherwise
				if ratRep {
					if o.sum != ratSumF || o.sumsq != ratSqF {
						bad("value-merge/sum-exact", "sum %v sumsq %v, the events contribute exactly %v / %v", o.sum, o.sumsq, ratSum.RatString(), ratSq.RatString())
					}
				} else if !near(o.sum, ratSumF, ratAbs) || !near(o.sumsq, ratSqF, ratSqF) {
					bad("value-merge/sum", "sum %v sumsq %v, the events contribute %v / %v", o.sum, o.sumsq, ratSumF, ratSqF)
				}
			}
			if refCount > 0 {
				if !cntHosts[o.cntHost] {
					bad("max-counter-host/not-a-contributor", "max-counter host %s contributed no count", c04HostString(o.cntHost))
				}
			} else {
				w.Count("values.zero_total_count", 1)
			}
			if o.uniq != refUniq.Size(false) {
				bad("unique-small/size", "unique estimate %d, %d distinct values contributed", o.uniq, refUniq.Size(false))
			}
		}
		// The aggregator receives every agent contribution in wire form: MultiValueToTL → TL bytes → MergeWithTL2.  It is mixed
		// with the in-memory Merge inside the same permutations and trees when the wire form carries the contribution
		// unchanged: integer-valued case (the receiver rejects sums beyond ±MaxFloat32), no empty host tag (an absent
		// host is replaced by the sender's), counter > 0 (a value without counter is not sent at all).
		wireOK := c.exact && !hostSet[TagUnion{}]
		wireBroken := false
		mergeStep := func(dst, src *MultiValue) {
			if !wireOK || src.Value.Count() <= 0 || rnd.IntN(2) == 0 {
				dst.Merge(rng, src)
				return
			}
			var item tlstatshouse.MultiItem
			src.MultiValueToTL(&format.MetricMetaValue{}, &item.Tail, 1, &item.FieldsMask, nil)
			var ib tlstatshouse.MultiItemBytes
			if _, err := ib.ReadTL1(item.WriteTL1(nil)); err != nil {
				wireBroken = true
				return
			}
			if e := dst.MergeWithTL2(rng, &ib.Tail, ib.FieldsMask, TagUnion{}, AggregatorPercentileCompression); e != 0 {
				wireBroken = true
			}
			w.Count("values.steps.wire_form_merge", 1)
		}
		wireJudge := func(how string, res *MultiValue) {
			if wireBroken {
				w.R.NotJudged("values.trial_with_rejected_wire_form", 1)
				wireBroken = false
				return
			}
			if wireOK {
				how += "+MergeWithTL2"
			}
			judge(how, res, true)
		}
		if wireOK {
			w.Count("values.cases.with_wire_form_merges", 1)
		}
		nl := len(leaves)
		for trial := 0; trial < trials; trial++ {
			perm := rnd.Perm(nl)
			switch trial % 4 {
			case 0: // left to right, MultiValue.Merge
				var acc MultiValue
				start := 0
				if rnd.IntN(2) == 0 {
					acc = c04CloneMV(&leaves[perm[0]])
					start = 1
				}
				for _, p := range perm[start:] {
					x := c04CloneMV(&leaves[p])
					mergeStep(&acc, &x)
				}
				wireJudge("perm/MultiValue.Merge", &acc)
				w.Count("values.trials.perm", 1)
			case 1: // random binary tree, MultiValue.Merge
				items := make([]MultiValue, nl)
				for i, p := range perm {
					items[i] = c04CloneMV(&leaves[p])
				}
				for len(items) > 1 {
					i := rnd.IntN(len(items) - 1)
					mergeStep(&items[i], &items[i+1])
					items = append(items[:i+1], items[i+2:]...)
				}
				wireJudge("tree/MultiValue.Merge", &items[0])
				w.Count("values.trials.tree", 1)
			case 2: // random binary tree over ItemValue only
				items := make([]ItemValue, nl)
				for i, p := range perm {
					items[i] = leaves[p].Value
				}
				for len(items) > 1 {
					i := rnd.IntN(len(items) - 1)
					items[i].Merge(rng, &items[i+1])
					items = append(items[:i+1], items[i+2:]...)
				}
				res := MultiValue{Value: items[0], HLL: c04CloneHLL(refUniq)}
				judge("tree/ItemValue.Merge", &res, true)
				w.Count("values.trials.itemvalue_tree", 1)
			case 3: // regrouped: every event straight into one accumulator, permuted
				var acc MultiValue
				for _, p := range rnd.Perm(len(flat)) {
					c04Apply(rng, &acc, &flat[p])
				}
				judge("events/Add+Apply", &acc, false)
				w.Count("values.trials.eventwise", 1)
			}
		}
		if exact {
			w.Count("values.cases.exact_class", 1)
		} else {
			w.Count("values.cases.float_class", 1)
		}
		if len(minHosts) > 1 || len(maxHosts) > 1 {
			w.Count("values.cases.extreme_tied_between_hosts", 1)
		}
		nontrivial := len(hostSet) >= 2 && valued >= 2
		if nontrivial || it < 2 {
			var sb strings.Builder
			for _, evs := range c.events {
				sb.WriteString("|")
				for _, e := range evs {
					fmt.Fprintf(&sb, "%s%s,%v,%v,%v;", e.Kind, c04HostString(e.Host), e.Count, e.Vals, e.Hist)
				}
			}
			w.Case(nontrivial, sb.String())
		} else {
			w.Case(false, "")
		}
		if w.Index == 0 && it < 2 {
			r.Sample(map[string]any{"phase": "values", "leaves": c.events, "exact_class": exact,
				"reference": fmt.Sprintf("count=%v min=%v max=%v sum=%v sumsq=%v", refCount, refMin, refMax, refSum, refSumSq)})
		}
	}
}

// ---------------------------------------------------------------- uniques

type c04Range struct {
	Start  int64   `json:"start"`
	Len    int     `json:"len"`
	Stride int64   `json:"stride"`
	Extra  []int64 `json:"extra,omitempty"` // keys whose 32-bit hash is 0 (the sketch keeps "zero" outside its table)
}

// three keys with uintHash32(key) == 0 (found by exhaustive search; re-checked at start-up)
var c04ZeroHashKeys = []int64{0, 528038771, 1530889310}

func (rg c04Range) items(dst []int64) []int64 {
	for k := 0; k < rg.Len; k++ {
		dst = append(dst, rg.Start+int64(k)*rg.Stride)
	}
	return append(dst, rg.Extra...)
}

// smallest prefix of the range that puts exactly `want` items into a sketch
func c04LenForItems(start, stride int64, want int32) int {
	var s ChUnique
	n := 0
	for s.itemsCount < want && n < 400000 {
		s.Insert(uint64(start + int64(n)*stride))
		n++
	}
	return n
}

func c04GenRanges(rnd *mrand.Rand) []c04Range {
	n := 2 + rnd.IntN(5)
	if rnd.IntN(10) == 0 {
		n = 2
	}
	shape := rnd.IntN(7)
	var out []c04Range
	for i := 0; i < n; i++ {
		var l int
		cls := rnd.IntN(10)
		switch shape {
		case 0: // all small: nothing is thinned, the estimate is an exact count
			cls = rnd.IntN(5)
		case 1: // one big, others small (7-b / 7-c shape)
			if i == 0 {
				cls = 9
			} else {
				cls = rnd.IntN(5)
			}
		}
		switch {
		case cls < 2:
			l = 1 + rnd.IntN(50)
		case cls < 5:
			l = 200 + rnd.IntN(3000)
		case cls < 7:
			l = 20000 + rnd.IntN(46000)
		case cls < 8:
			l = 65000 + rnd.IntN(1200) // around the thinning threshold
		default:
			l = 70000 + rnd.IntN(230000)
		}
		stride := int64(1)
		if rnd.IntN(4) == 0 {
			stride = int64(1 + rnd.IntN(3))
		}
		start := rnd.Int64N(400000)
		if rnd.IntN(5) == 0 && len(out) > 0 { // heavy overlap with an earlier leaf
			start = out[rnd.IntN(len(out))].Start
		}
		if shape == 2 && i == 0 { // a sketch that is exactly full: 65536 items, not thinned yet
			l = c04LenForItems(start, stride, uniquesHashMaxSize)
		}
		rg := c04Range{Start: start, Len: l, Stride: stride}
		if rnd.IntN(6) == 0 {
			rg.Extra = c04ZeroHashKeys[:1+rnd.IntN(len(c04ZeroHashKeys))]
		}
		out = append(out, rg)
	}
	rnd.Shuffle(len(out), func(i, j int) { out[i], out[j] = out[j], out[i] })
	return out
}

// state invariants of the sketch, used only to name the root-cause class of a disagreement
func c04SketchClass(ch *ChUnique, maxInSkip uint32) string {
	if ch.buf != nil {
		n := int32(0)
		for _, x := range ch.buf {
			if x == 0 {
				continue
			}
			n++
			if !ch.good(x) {
				return "merge-good-level" // keeps a hash that is not divisible by 2^skipDegree
			}
		}
		if ch.hasZeroItem {
			n++
		}
		if n != ch.itemsCount {
			return "items-count-wrong"
		}
	}
	if ch.skipDegree < maxInSkip {
		return "skip-degree-not-adopted"
	}
	if ch.itemsCount > uniquesHashMaxSize || ch.sizeDegree > uniquesHashMaxSizeDegree {
		return "size-degree-above-max" // table grown past the degree at which thinning starts
	}
	return ""
}

type c04Step struct {
	op    string // Merge | MergeRead
	class string
}

func c04RunUniques(r *verifkit.Run, w *verifkit.Worker, n int, trials int) {
	rnd := w.Rnd
	rng := rand.New(r.SubSeed(fmt.Sprintf("uniq-rng/%d", w.Index)))
	var scratch []int64
	for it := 0; it < n; it++ {
		ranges := c04GenRanges(rnd)
		leaves := make([]MultiValue, len(ranges))
		var ref, refRev ChUnique // grouping "every item on its own": ChUnique.Insert only
		maxLeafSkip := uint32(0)
		skips := map[uint32]bool{}
		for i, rg := range ranges {
			scratch = rg.items(scratch[:0])
			leaves[i].ApplyUnique(rng, scratch, float64(len(scratch)), TagUnion{I: int32(i + 1)})
			for _, x := range scratch {
				ref.Insert(uint64(x))
			}
			maxLeafSkip = max(maxLeafSkip, leaves[i].HLL.skipDegree)
			skips[leaves[i].HLL.skipDegree] = true
		}
		for i := len(ranges) - 1; i >= 0; i-- {
			scratch = ranges[i].items(scratch[:0])
			for k := len(scratch) - 1; k >= 0; k-- {
				refRev.Insert(uint64(scratch[k]))
			}
		}
		want := ref.Size(false)
		witness := func(how string, steps []string, got *ChUnique) any {
			return map[string]any{"leaves_as_ranges(start,len,stride)": ranges, "how": how, "steps": steps,
				"got": map[string]any{"size": got.Size(false), "skip_degree": got.skipDegree, "items": got.itemsCount},
				"insert_one_by_one": map[string]any{"size": want, "skip_degree": ref.skipDegree, "items": ref.itemsCount}}
		}
		if refRev.Size(false) != want {
			r.Violation("C04/unique-insert-order/size", fmt.Sprintf("inserting the same items in reverse order estimates %d, forward %d", refRev.Size(false), want),
				witness("insert reversed", nil, &refRev))
		}
		// the serialized form of a sketch, as the agent sends it
		ser := func(ch *ChUnique) []byte { return ch.MarshallAppend(nil) }
		nl := len(leaves)
		for trial := 0; trial < trials; trial++ {
			mode := trial % 3 // 0 Merge, 1 MergeRead, 2 mixed
			tree := (trial/3)%2 == 1
			perm := rnd.Perm(nl)
			var steps []string
			var firstBroken *c04Step
			merge := func(dst *MultiValue, src *MultiValue) {
				op := "Merge"
				if mode == 1 || (mode == 2 && rnd.IntN(2) == 0) {
					op = "MergeRead"
				}
				inSkip := max(dst.HLL.skipDegree, src.HLL.skipDegree)
				steps = append(steps, fmt.Sprintf("%s(dst{skip %d,items %d} <- src{skip %d,items %d})", op, dst.HLL.skipDegree, dst.HLL.itemsCount, src.HLL.skipDegree, src.HLL.itemsCount))
				if op == "Merge" {
					dst.Merge(rng, src) // → ChUnique.Merge
				} else {
					if err := dst.HLL.MergeRead(bytes.NewBuffer(ser(&src.HLL))); err != nil {
						key := "C04/unique-mergeread/error"
						if firstBroken != nil { // the sketch was already out of shape after an earlier step
							key = "C04/unique-" + map[string]string{"Merge": "merge-order", "MergeRead": "mergeread"}[firstBroken.op] + "/" + firstBroken.class
						}
						r.Violation(key, "MergeRead of a sketch serialized by MarshallAppend failed: "+err.Error(), witness("MergeRead", steps, &dst.HLL))
					}
					dst.Value.Merge(rng, &src.Value)
				}
				w.Count("uniques.steps."+op, 1)
				if firstBroken == nil {
					if cl := c04SketchClass(&dst.HLL, inSkip); cl != "" {
						firstBroken = &c04Step{op: op, class: cl}
					}
				}
			}
			var res MultiValue
			how := ""
			if !tree {
				how = "perm"
				start := 0
				if rnd.IntN(2) == 0 {
					res = c04CloneMV(&leaves[perm[0]])
					start = 1
				}
				for _, p := range perm[start:] {
					x := c04CloneMV(&leaves[p])
					merge(&res, &x)
				}
			} else {
				how = "tree"
				items := make([]MultiValue, nl)
				for i, p := range perm {
					items[i] = c04CloneMV(&leaves[p])
				}
				for len(items) > 1 {
					i := rnd.IntN(len(items) - 1)
					merge(&items[i], &items[i+1])
					items = append(items[:i+1], items[i+2:]...)
				}
				res = items[0]
			}
			how += []string{"/Merge", "/MergeRead", "/mixed"}[mode]
			w.Count("uniques.trials."+how, 1)
			got := res.HLL.Size(false)
			if got != want {
				// name the class by the first step that broke a state invariant of the sketch
				key := ""
				switch {
				case firstBroken != nil && firstBroken.op == "Merge":
					key = "C04/unique-merge-order/" + firstBroken.class
				case firstBroken != nil:
					key = "C04/unique-mergeread/" + firstBroken.class
				default:
					key = "C04/unique-" + []string{"merge-order", "mergeread", "mixed"}[mode] + "/size-differs"
				}
				r.Violation(key, fmt.Sprintf("%s of the same multiset of unique sets estimates %d, inserting every item into one sketch estimates %d", how, got, want),
					witness(how, steps, &res.HLL))
			}
			// the value part of these big leaves: integers of moderate size ⇒ count/min/max exact
			var cnt float64
			mn, mx := math.Inf(1), math.Inf(-1)
			for i := range leaves {
				cnt += leaves[i].Value.Count()
				mn = math.Min(mn, leaves[i].Value.ValueMin)
				mx = math.Max(mx, leaves[i].Value.ValueMax)
			}
			if res.Value.Count() != cnt || res.Value.ValueMin != mn || res.Value.ValueMax != mx {
				r.Violation("C04/value-merge/big-unique-leaves", fmt.Sprintf("count/min/max %v/%v/%v, contributions give %v/%v/%v", res.Value.Count(), res.Value.ValueMin, res.Value.ValueMax, cnt, mn, mx),
					witness(how, steps, &res.HLL))
			}
		}
		w.Count(fmt.Sprintf("uniques.cases.final_skip_degree_%d", ref.skipDegree), 1)
		if len(skips) > 1 {
			w.Count("uniques.cases.leaf_skip_degrees_differ", 1)
		}
		for i := range leaves {
			if leaves[i].HLL.hasZeroItem {
				w.Count("uniques.leaves.with_zero_hash_item", 1)
			}
			if leaves[i].HLL.itemsCount == uniquesHashMaxSize && leaves[i].HLL.skipDegree == 0 {
				w.Count("uniques.leaves.exactly_full_not_thinned", 1)
			}
		}
		nontrivial := ref.skipDegree > 0 || len(skips) > 1
		w.Case(nontrivial, fmt.Sprint(ranges))
		if w.Index == 0 && it < 2 {
			r.Sample(map[string]any{"phase": "uniques", "leaves_as_ranges": ranges, "insert_one_by_one_size": want, "skip_degree": ref.skipDegree})
		}
	}
}

func TestVerifC04(t *testing.T) {
	r := verifkit.Start(t, "C04", "data_model")
	defer r.Finish()
	r.SetRule("values: 2–40 leaves, each 1–4 events (counter, value, percentile value, value array + histogram, small unique set; 8 host tags incl. empty, " +
		"exact class = integers/dyadic fractions, float class = arbitrary finite floats up to ±MaxFloat32) built through Add*/Apply*; merged in permutations, random binary trees " +
		"(MultiValue.Merge, ItemValue.Merge) and event-by-event; non-trivial = ≥2 hosts and ≥2 valued events. " +
		"uniques: 2–6 unique sets given as arithmetic ranges (1…300 000 items, overlapping) merged through MultiValue.Merge/ChUnique.Merge, ChUnique.MergeRead and a mix, " +
		"in permutations and trees, against one-by-one insertion of all items; non-trivial = some sketch is thinned (skip degree ≥ 1) or leaf skip degrees differ; distinct = distinct event lists / range lists.")
	for _, k := range c04ZeroHashKeys {
		var ch ChUnique
		if ch.uintHash32(uint64(k)) != 0 {
			r.Inconclusive(fmt.Sprintf("harness constant: key %d does not hash to 0 any more", k))
		}
	}
	workers := 16
	nVal := r.N(4000, 60000)
	nUniq := r.N(640, 8000)
	trialsVal := 40
	trialsUniq := r.N(12, 24)
	r.Parallel(workers, "values", func(w *verifkit.Worker) {
		c04RunValues(r, w, nVal/workers, trialsVal)
	})
	r.Parallel(workers, "uniques", func(w *verifkit.Worker) {
		c04RunUniques(r, w, nUniq/workers, trialsUniq)
	})
}
