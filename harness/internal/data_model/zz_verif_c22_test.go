//go:build verif

package data_model_test

// C22 — query time axes are aligned, gap-free and bounded (bulk unit: GetTimescale and
// GetLODs over the argument domain the API handlers can pass; oracle in c22kit).

import (
	"fmt"
	"sync"
	"testing"
	"time"

	"github.com/VKCOM/statshouse/internal/zzverif/c22kit"
	"github.com/VKCOM/statshouse/internal/zzverif/verifkit"
)

type c22Sink struct {
	r   *verifkit.Run
	w   *verifkit.Worker
	idx int
}

func (s *c22Sink) Bad(key, what string) {
	s.r.Violation(key, what, map[string]any{"case": s.idx, "detail": what})
}
func (s *c22Sink) Count(name string, d int64)     { s.w.Count(name, d) }
func (s *c22Sink) NotJudged(name string, d int64) { s.r.NotJudged(name, d) }

func TestVerifC22(t *testing.T) {
	r := verifkit.Start(t, "C22", "timescale")
	defer r.Finish()
	zones, missing := c22kit.LoadZones()
	if len(zones) < 30 {
		r.Inconclusive(fmt.Sprintf("only %d of %d time zones could be loaded (missing %v)", len(zones), len(c22kit.ZoneNames), missing))
		return
	}
	r.SetCounter("zones_loaded", int64(len(zones)))
	r.SetRule("one case = (start, end, step from {0, every table step, 1M, table step±1, random < 2^31}, now around DST switches / a skipped local midnight on the 1st / random, one of 41 time zones incl. 30/45-minute offsets, week start 0..6, screen width 0..8000, mode, extend, 1..3 metrics with resolution and offset) → GetTimescale + Timescale.GetLODs + GetLODs; judged when a non-empty axis is returned (errors and empty axes are counted). Non-trivial = more than one LOD, or an extra leading point, or monthly, or > 2 points; distinct = distinct argument tuples.")
	r.Assume("UTCOffset is what api.calcUTCOffset computes: (Thursday - weekStart) days + the zone's offset at the epoch; alignment of fixed steps is judged against that argument, not against today's local time")
	n := r.N(400000, 6000000)
	workers := 8
	if r.Thorough() {
		workers = 16
	}
	var mu sync.Mutex
	sampled := 0
	r.Parallel(workers, "cases", func(w *verifkit.Worker) {
		sink := &c22Sink{r: r, w: w}
		for i := w.Index; i < n; i += workers {
			sink.idx = i
			c := c22kit.Gen(w.Rnd, zones, func(z c22kit.Zone, ws time.Weekday) int64 { return c22kit.RefUTCOffset(z, ws) })
			judged, nontrivial := c22kit.Judge(&c, sink)
			if judged {
				w.Case(nontrivial, c.Abstraction())
				if c.Args.Step == c22kit.Month {
					w.Count("monthly_axes_judged", 1)
				}
				if c.Args.Step == c22kit.Week {
					w.Count("weekly_axes_judged", 1)
				}
				if sampled < 3 {
					mu.Lock()
					if sampled < 3 {
						sampled++
						r.Sample(c.String())
					}
					mu.Unlock()
				}
			}
		}
	})
}
