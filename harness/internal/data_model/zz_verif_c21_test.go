//go:build verif

package data_model

// C21 (chunked storage half) — reloading a chunked file yields exactly what was saved; a
// truncated or corrupted file yields a prefix of the saved chunks, never a damaged item.
//
// Every image is also decoded by an independent parser written from the format comment at
// the top of chunked_storage2.go; truncation is enumerated at every offset, bit flips at
// every byte, "crash while rewriting" at every offset (new prefix + old tail).

import (
	"bytes"
	"encoding/binary"
	"fmt"
	"math/rand/v2"
	"os"
	"path/filepath"
	"runtime/debug"
	"testing"

	"github.com/zeebo/xxh3"

	"github.com/VKCOM/statshouse/internal/zzverif/verifkit"
)

type c21Chunk struct {
	off, end int
	body     []byte
}

// c21Parse decodes an image per the documented format: [magic u32][size u32][body][hash 16],
// hash = xxh3-128 over (hash of the previous chunk or 16 zero bytes) ‖ magic ‖ size ‖ body.
// It stops at the first chunk that is incomplete or does not verify.
func c21Parse(img []byte, magic uint32) (chunks []c21Chunk, clean bool) {
	prev := make([]byte, 16)
	off := 0
	for {
		if off == len(img) {
			return chunks, true
		}
		if off+8+16 > len(img) {
			return chunks, false
		}
		if binary.LittleEndian.Uint32(img[off:]) != magic {
			return chunks, false
		}
		s := int(binary.LittleEndian.Uint32(img[off+4:]))
		if s > ChunkSize || off+8+s+16 > len(img) {
			return chunks, false
		}
		h := xxh3.Hash128(append(append([]byte(nil), prev...), img[off:off+8+s]...))
		var hb [16]byte
		binary.BigEndian.PutUint64(hb[:], h.Hi)
		binary.BigEndian.PutUint64(hb[8:], h.Lo)
		if !bytes.Equal(hb[:], img[off+8+s:off+8+s+16]) {
			return chunks, false
		}
		chunks = append(chunks, c21Chunk{off: off, end: off + 8 + s + 16, body: img[off+8 : off+8+s]})
		prev = hb[:]
		off += 8 + s + 16
	}
}

// c21ReadAll follows the reader contract: ReadNext until an empty chunk or an error.
func c21ReadAll(c *ChunkedStorage2, magic uint32) (bodies [][]byte, err error) {
	for n := 0; ; n++ {
		chunk, e := c.ReadNext(magic)
		if e != nil {
			return bodies, e
		}
		if len(chunk) == 0 {
			return bodies, nil
		}
		bodies = append(bodies, append([]byte(nil), chunk...))
		if n > 1<<20 {
			panic("verif: ReadNext never ends")
		}
	}
}

// c21Rearm makes a storage created by the real constructor read the (changed) backing
// slice again from the start, as a fresh constructor call would, without allocating the
// 1 MiB scratch buffer once more.
func c21Rearm(c *ChunkedStorage2, readAt func([]byte, int64) error, size int) {
	c.offset, c.hash, c.nextOffset, c.nextHash = 0, xxh3.Uint128{}, 0, xxh3.Uint128{}
	c.initialFileSize = int64(size)
	c.ReadAt = readAt
	c.writeErr = nil
}

type c21Case struct {
	r     *verifkit.Run
	w     *verifkit.Worker
	rnd   *rand.Rand
	index int
	magic uint32
	log   []string
	seq   uint32
}

func (cs *c21Case) bad(key, what string, extra map[string]any) {
	w := map[string]any{"case": cs.index, "steps": cs.log}
	for k, v := range extra {
		w[k] = v
	}
	cs.r.Violation("C21/"+key, what, w)
}

func (cs *c21Case) item(big bool) []byte {
	n := 12 + cs.rnd.IntN(40)
	if cs.rnd.IntN(6) == 0 {
		n = 12 // smallest
	}
	if big {
		n = 100_000 + cs.rnd.IntN(300_000)
	}
	b := make([]byte, n)
	cs.seq++
	binary.LittleEndian.PutUint32(b, uint32(n))
	binary.LittleEndian.PutUint32(b[4:], uint32(cs.index))
	binary.LittleEndian.PutUint32(b[8:], cs.seq)
	x := uint64(cs.index)<<32 | uint64(cs.seq)
	for i := 12; i < n; i++ {
		x = x*6364136223846793005 + 1442695040888963407
		b[i] = byte(x >> 56)
	}
	return b
}

// writeRounds appends rounds of items through the real writer and returns the item bytes
// in order.
func (cs *c21Case) writeRounds(c *ChunkedStorage2, rounds int, allowBig bool) (items []byte, ok bool) {
	for rd := 0; rd < rounds; rd++ {
		maxChunk := []int{0, 0, 1, 64, 4096, ChunkSize, ChunkSize + 1, -5}[cs.rnd.IntN(8)]
		chunk := c.StartWriteChunk(cs.magic, maxChunk)
		n := cs.rnd.IntN(6)
		if cs.rnd.IntN(8) == 0 {
			n = 0 // an empty round writes no chunk
		}
		for i := 0; i < n; i++ {
			it := cs.item(allowBig && cs.rnd.IntN(3) == 0)
			chunk = append(chunk, it...)
			var err error
			chunk, err = c.FinishItem(chunk)
			if err != nil {
				cs.bad("chunked/finish-item-error", "FinishItem failed for an item < ChunkSize/2: "+err.Error(), nil)
				return items, false
			}
			items = append(items, it...)
		}
		if err := c.FinishWriteChunk(chunk); err != nil {
			cs.bad("chunked/finish-chunk-error", "FinishWriteChunk failed on a healthy store: "+err.Error(), nil)
			return items, false
		}
		cs.log = append(cs.log, fmt.Sprintf("round maxChunk=%d items=%d", maxChunk, n))
	}
	return items, true
}

func c21Concat(ch []c21Chunk) []byte {
	var b []byte
	for _, c := range ch {
		b = append(b, c.body...)
	}
	return b
}

// checkIntact: parser and reader agree with each other and with what was written.
func (cs *c21Case) checkIntact(img []byte, wantItems []byte, what string) ([]c21Chunk, bool) {
	chunks, clean := c21Parse(img, cs.magic)
	if !clean {
		cs.bad("chunked/image-not-wellformed", what+": the written image does not decode per the documented format", map[string]any{"image_len": len(img), "chunks_decoded": len(chunks)})
		return nil, false
	}
	if !bytes.Equal(c21Concat(chunks), wantItems) {
		cs.bad("chunked/intact-differs", what+": chunk bodies of the written image are not the saved items in order", map[string]any{"image_len": len(img)})
		return nil, false
	}
	for _, c := range chunks {
		if len(c.body) == 0 || len(c.body) > ChunkSize {
			cs.bad("chunked/chunk-size", fmt.Sprintf("%s: chunk at %d has body size %d", what, c.off, len(c.body)), nil)
		}
	}
	cp := append([]byte(nil), img...)
	st := NewChunkedStorage2Slice(&cp)
	bodies, err := c21ReadAll(st, cs.magic)
	if err != nil {
		cs.bad("chunked/intact-read-error", what+": reading an intact image failed: "+err.Error(), nil)
		return nil, false
	}
	if len(bodies) != len(chunks) {
		cs.bad("chunked/intact-differs", fmt.Sprintf("%s: reader returned %d chunks, image holds %d", what, len(bodies), len(chunks)), nil)
		return nil, false
	}
	for i := range bodies {
		if !bytes.Equal(bodies[i], chunks[i].body) {
			cs.bad("chunked/intact-differs", fmt.Sprintf("%s: chunk %d read back differs from the saved one", what, i), nil)
			return nil, false
		}
	}
	// a reader asking for another magic gets nothing
	cp2 := append([]byte(nil), img...)
	st2 := NewChunkedStorage2Slice(&cp2)
	if b2, err2 := c21ReadAll(st2, cs.magic+1); len(img) > 0 && (err2 == nil || len(b2) != 0) {
		cs.r.NotJudged("chunked_reader_with_other_magic_got_data", 1) // format hygiene, not in the statement
	}
	return chunks, true
}

// judgeDamaged: what the reader returns for a damaged image must be a prefix of the saved
// chunks, each byte-identical to the saved one (never a damaged item).  wantN is the number
// of chunks lying entirely before the damage, cleanEnd whether the image is in fact a whole
// number of chunks (then it is an intact shorter file and must read back completely).
// Returning fewer chunks than wantN, or ending without an error on a damaged image, is
// stricter than the statement: counted, not judged.
func (cs *c21Case) judgeDamaged(kind string, pos int, chunks []c21Chunk, wantN int, cleanEnd bool, bodies [][]byte, err error) {
	if len(bodies) > len(chunks) {
		cs.bad("chunked/"+kind+"/extra-chunk", fmt.Sprintf("%s at %d: reader returned %d chunks, only %d were saved", kind, pos, len(bodies), len(chunks)), nil)
		return
	}
	for i := range bodies {
		if !bytes.Equal(bodies[i], chunks[i].body) {
			cs.bad("chunked/"+kind+"/damaged-item", fmt.Sprintf("%s at %d: chunk %d returned differs from the saved chunk", kind, pos, i), nil)
			return
		}
	}
	if cleanEnd {
		if len(bodies) != wantN || err != nil {
			cs.bad("chunked/"+kind+"/intact-shorter-file-not-read", fmt.Sprintf("%s at %d: image is a whole number of chunks (%d) but the reader returned %d, err %v", kind, pos, wantN, len(bodies), err), nil)
		}
		return
	}
	if len(bodies) > wantN {
		// only possible when the damage sits in bytes that do not belong to the item (e.g. an ignored header/hash byte)
		cs.r.NotJudged("chunked_reader_accepted_chunk_with_damaged_envelope", 1)
	}
	if len(bodies) < wantN {
		cs.r.NotJudged("chunked_reader_returned_fewer_chunks_than_intact_before_damage", 1)
	}
	if err == nil {
		cs.r.NotJudged("chunked_reader_reported_no_error_on_damaged_image", 1)
	}
}

func (cs *c21Case) run(enumerateAll bool) {
	rnd := cs.rnd
	defer func() {
		if p := recover(); p != nil {
			cs.bad("chunked/panic", fmt.Sprintf("panic: %v", p), map[string]any{"stack": string(debug.Stack())})
		}
	}()
	cs.magic = []uint32{ChunkedMagicMappings, ChunkedMagicJournal, ChunkedMagicConfig, 0x11223344}[rnd.IntN(4)]
	big := rnd.IntN(40) == 0
	var img []byte
	st := NewChunkedStorage2Slice(&img)
	if b, err := c21ReadAll(st, cs.magic); err != nil || len(b) != 0 {
		cs.bad("chunked/empty-file", fmt.Sprintf("empty file: %d chunks, err %v", len(b), err), nil)
		return
	}
	items, ok := cs.writeRounds(st, 1+rnd.IntN(6), big)
	if !ok {
		return
	}
	chunks, ok := cs.checkIntact(img, items, "first save")
	if !ok {
		return
	}
	cs.w.Count("images", 1)
	cs.w.Count("chunks_written", int64(len(chunks)))
	if big {
		cs.w.Count("images_with_auto_flushed_chunks", 1)
	}
	nChunksBefore := func(o int) int { // chunks lying entirely in [0,o)
		n := 0
		for _, c := range chunks {
			if c.end <= o {
				n++
			}
		}
		return n
	}
	atBoundary := func(o int) bool {
		if o == 0 {
			return true
		}
		for _, c := range chunks {
			if c.end == o {
				return true
			}
		}
		return false
	}
	chunkAt := func(p int) int {
		for i, c := range chunks {
			if p >= c.off && p < c.end {
				return i
			}
		}
		return -1
	}

	// ---- truncation at every offset, bit flip at every byte (sampled for huge images)
	work := append([]byte(nil), img...)
	view := work
	rd := NewChunkedStorage2Slice(&view)
	readAt := rd.ReadAt
	stepT, stepF := 1, 1
	if len(img) > 20000 {
		stepT, stepF = len(img)/300, len(img)/300
	} else if !enumerateAll {
		stepF = 1 + rnd.IntN(3)
	}
	for o := 0; o < len(img); o += stepT {
		if stepT > 1 {
			o = min(len(img)-1, o+rnd.IntN(stepT))
		}
		view = work[:o]
		c21Rearm(rd, readAt, o)
		bodies, err := c21ReadAll(rd, cs.magic)
		cs.judgeDamaged("truncate", o, chunks, nChunksBefore(o), atBoundary(o), bodies, err)
		cs.w.Count("cut_offsets", 1)
		cs.w.CaseHash(o > 0, verifkit.Hash(fmt.Sprintf("t %d %d", cs.index, o)))
	}
	view = work
	for p := rnd.IntN(stepF); p < len(img); p += stepF {
		bit := byte(1) << uint(rnd.IntN(8))
		work[p] ^= bit
		c21Rearm(rd, readAt, len(work))
		bodies, err := c21ReadAll(rd, cs.magic)
		work[p] ^= bit
		cs.judgeDamaged("bitflip", p, chunks, chunkAt(p), false, bodies, err)
		cs.w.Count("bit_flips", 1)
		cs.w.CaseHash(true, verifkit.Hash(fmt.Sprintf("f %d %d %d", cs.index, p, bit)))
	}

	// ---- restart on a (possibly damaged) image, then append: the damaged tail is replaced
	dmg := append([]byte(nil), img...)
	kind, pos := "none", len(img)
	wantKeep := len(chunks)
	switch rnd.IntN(3) {
	case 1:
		kind, pos = "truncate", rnd.IntN(len(img)+1)
		dmg = dmg[:pos]
		wantKeep = nChunksBefore(pos)
	case 2:
		if len(img) > 0 {
			kind, pos = "bitflip", rnd.IntN(len(img))
			dmg[pos] ^= 1 << uint(rnd.IntN(8))
			wantKeep = chunkAt(pos)
		}
	}
	cs.log = append(cs.log, fmt.Sprintf("restart on image damaged by %s at %d", kind, pos))
	var st2 *ChunkedStorage2
	var fp *os.File
	useFile := rnd.IntN(10) == 0
	if useFile {
		dir := cs.r.MkTmp("c21cs-")
		defer os.RemoveAll(dir)
		path := filepath.Join(dir, "img")
		if err := os.WriteFile(path, dmg, 0o644); err != nil {
			panic(err)
		}
		var err error
		fp, err = os.OpenFile(path, os.O_CREATE|os.O_RDWR, 0o666)
		if err != nil {
			panic(err)
		}
		defer fp.Close()
		var sz int64
		st2, sz = NewChunkedStorage2FileWithSize(fp)
		if sz != int64(len(dmg)) {
			cs.bad("chunked/file-size", fmt.Sprintf("NewChunkedStorage2FileWithSize reports %d bytes, file has %d", sz, len(dmg)), nil)
		}
		cs.w.Count("file_backed_restarts", 1)
	} else {
		st2 = NewChunkedStorage2Slice(&dmg)
	}
	bodies, err := c21ReadAll(st2, cs.magic)
	cs.judgeDamaged("restart-"+kind, pos, chunks, wantKeep, kind == "none" || (kind == "truncate" && atBoundary(pos)), bodies, err)
	rewrite := rnd.IntN(3) == 0
	if rewrite {
		st2.ResetToStartOfFile()
		wantKeep = 0
	}
	more, ok := cs.writeRounds(st2, 1+rnd.IntN(3), false)
	if !ok {
		return
	}
	var now []byte
	if useFile {
		b, err := os.ReadFile(fp.Name())
		if err != nil {
			panic(err)
		}
		now = b
	} else {
		now = dmg
	}
	wantItems := append(c21Concat(chunks[:min(wantKeep, len(bodies))]), more...)
	what := "append after restart"
	if rewrite {
		what = "rewrite after restart"
	}
	chunks2, ok := cs.checkIntact(now, wantItems, what)
	if !ok {
		return
	}
	cs.w.Count("restart_then_write", 1)

	// ---- crash while a later save rewrites the file in place: new prefix + old tail
	if len(chunks2) == 0 || len(now) > 20000 {
		return
	}
	old := append([]byte(nil), now...)
	st3 := NewChunkedStorage2Slice(&now)
	if _, err := c21ReadAll(st3, cs.magic); err != nil {
		cs.bad("chunked/intact-read-error", "re-reading before rewrite failed: "+err.Error(), nil)
		return
	}
	st3.ResetToStartOfFile()
	keepSame := rnd.IntN(2) == 0 // the new save may start with the same chunk(s) as the old one
	var newImg []byte
	{
		var tmp []byte
		ns := NewChunkedStorage2Slice(&tmp)
		_, _ = c21ReadAll(ns, cs.magic)
		if keepSame {
			ch := ns.StartWriteChunk(cs.magic, 0)
			ch = append(ch, chunks2[0].body...)
			if err := ns.FinishWriteChunk(ch); err != nil {
				panic(err)
			}
		}
		if _, ok := cs.writeRounds(ns, 1+rnd.IntN(3), false); !ok {
			return
		}
		newImg = tmp
	}
	newChunks, clean := c21Parse(newImg, cs.magic)
	if !clean {
		cs.bad("chunked/image-not-wellformed", "second save does not decode", nil)
		return
	}
	oldChunks := chunks2
	mix := make([]byte, 0, max(len(old), len(newImg)))
	mview := mix
	mr := NewChunkedStorage2Slice(&mview)
	mReadAt := mr.ReadAt
	for o := 0; o <= len(newImg); o++ {
		mix = append(mix[:0], newImg[:o]...)
		if o < len(old) {
			mix = append(mix, old[o:]...)
		}
		mview = mix
		c21Rearm(mr, mReadAt, len(mix))
		var seq [][]byte
		for {
			chunk, err := mr.ReadNext(cs.magic)
			if err != nil || len(chunk) == 0 {
				break
			}
			seq = append(seq, append([]byte(nil), chunk...))
		}
		isPrefix := func(list []c21Chunk) bool {
			if len(seq) > len(list) {
				return false
			}
			for i := range seq {
				if !bytes.Equal(seq[i], list[i].body) {
					return false
				}
			}
			return true
		}
		if !isPrefix(newChunks) && !isPrefix(oldChunks) {
			cs.bad("chunked/rewrite-crash/not-a-prefix-of-one-save", fmt.Sprintf("crash after %d bytes of an in-place rewrite: the %d chunks read are neither a prefix of the new save (%d chunks) nor of the old one (%d chunks)", o, len(seq), len(newChunks), len(oldChunks)), nil)
		}
		want := 0
		for _, c := range newChunks {
			if c.end <= o {
				want++
			}
		}
		if isPrefix(newChunks) && len(seq) < want {
			cs.r.NotJudged("chunked_reader_returned_fewer_chunks_than_intact_before_damage", 1)
		}
		cs.w.Count("rewrite_crash_offsets", 1)
		cs.w.CaseHash(o > 0 && o < len(newImg), verifkit.Hash(fmt.Sprintf("x %d %d", cs.index, o)))
	}
}

func TestVerifC21(t *testing.T) {
	r := verifkit.Start(t, "C21", "chunked")
	defer r.Finish()
	r.SetRule("one image = 1..6 save rounds of 0..5 self-identifying items (12..52 bytes, 1 in 40 images with 100..400 KB items so that FinishItem flushes by itself), written through the real writer and decoded by an independent parser of the documented format; judged cases = every truncation offset of the image (sampled above 20 KB), one flipped bit at every byte, restart on a damaged image followed by append or rewrite (slice- and file-backed), and every crash offset of an in-place rewrite (new prefix + old tail). Non-trivial = damage inside the image; distinct = (image, kind, position).")
	r.Assume("xxh3-128 collisions do not occur on the generated images (a damaged chunk passing its hash is reported as a violation)")
	n := r.N(400, 8000)
	workers := 8
	if r.Thorough() {
		workers = 16
	}
	seed := r.SubSeed("img")
	r.Parallel(workers, "img", func(w *verifkit.Worker) {
		for i := w.Index; i < n; i += workers {
			cs := &c21Case{r: r, w: w, rnd: rand.New(rand.NewPCG(seed, uint64(i))), index: i}
			cs.run(r.Thorough() || i%4 == 0)
			if i < 2 {
				r.Sample(map[string]any{"case": i, "steps": cs.log})
			}
		}
	})
	// the chunk size limit given to StartWriteChunk ("limit for tests") is not applied by
	// FinishItem: recorded, not judged (the statement does not speak about chunk sizes)
	{
		var img []byte
		st := NewChunkedStorage2Slice(&img)
		_, _ = c21ReadAll(st, ChunkedMagicConfig)
		ch := st.StartWriteChunk(ChunkedMagicConfig, 16)
		for i := 0; i < 10; i++ {
			ch = append(ch, make([]byte, 16)...)
			ch, _ = st.FinishItem(ch)
		}
		_ = st.FinishWriteChunk(ch)
		if cks, _ := c21Parse(img, ChunkedMagicConfig); len(cks) == 1 {
			r.NotJudged("maxChunkSize_argument_ignored_by_FinishItem", 1)
		}
	}
}
