//go:build verif

package data_model

import (
	"fmt"
	"math"
	mrand "math/rand/v2"
	"sort"
	"strings"
	"testing"

	"pgregory.net/rand"

	"github.com/VKCOM/statshouse/internal/format"
	"github.com/VKCOM/statshouse/internal/zzverif/verifkit"
)

// C06 — sampling is fair.
//
// Random hierarchies (namespaces / groups / metrics / fair keys, effective weights, optional fixed per-metric
// budgets) are run through the real sampler with deterministic selection (SelectF = ⌊len/sf⌋, RoundF = floor) and
// compared with an independent integer water-filling walk of the same tree.  A second phase runs the sampler in
// quota mode shaped like Aggregator.calcHostMetricBudgets.

type c06Meta struct {
	metrics map[int32]*format.MetricMetaValue
	groups  map[int32]*format.MetricsGroup
	nss     map[int32]*format.NamespaceMeta
}

func (m *c06Meta) GetMetaMetric(id int32) *format.MetricMetaValue     { return m.metrics[id] }
func (m *c06Meta) GetMetaMetricByName(string) *format.MetricMetaValue { return nil }
func (m *c06Meta) GetGroup(id int32) *format.MetricsGroup             { return m.groups[id] }
func (m *c06Meta) GetNamespace(id int32) *format.NamespaceMeta        { return m.nss[id] }
func (m *c06Meta) GetNamespaceByName(string) *format.NamespaceMeta    { return nil }
func (m *c06Meta) GetGroupByName(string) *format.MetricsGroup         { return nil }

type c06Item struct {
	item   *MultiItem
	metric int32
	ns     int32
	group  int32
	size   int64
	fair   [3]int32
	nfair  int
	fixed  int64 // fixed per-metric budget, 0 = none
	whale  float64
	// observed
	kept  bool
	seen  int
	sf    float64
	quota int64
}

type c06MetricSpec struct {
	ID      int32   `json:"id"`
	NS      int32   `json:"ns"`
	Group   int32   `json:"group"`
	W       int64   `json:"w"`
	NSW     int64   `json:"ns_w"`
	GroupW  int64   `json:"group_w"`
	RowSize int64   `json:"row_size"`
	Rows    int     `json:"rows"`
	Fair    int     `json:"fair_levels"`
	Fixed   int64   `json:"fixed_budget,omitempty"`
	Known   bool    `json:"in_meta"`
	Keys    [][]int `json:"fair_keys,omitempty"`
}

type c06Case struct {
	Metrics []c06MetricSpec `json:"metrics"`
	Budget  int64           `json:"budget"`
	Total   int64           `json:"total"`
	Opt     struct {
		Budgets, Namespaces, Groups, Keys bool
	} `json:"options"`
	meta  *c06Meta
	items []*c06Item
}

func c06Gen(rnd *mrand.Rand, quota bool) *c06Case {
	c := &c06Case{meta: &c06Meta{metrics: map[int32]*format.MetricMetaValue{}, groups: map[int32]*format.MetricsGroup{}, nss: map[int32]*format.NamespaceMeta{}}}
	c.Opt.Namespaces, c.Opt.Groups, c.Opt.Keys = rnd.IntN(4) != 0, rnd.IntN(4) != 0, rnd.IntN(4) != 0 && !quota
	c.Opt.Budgets = !quota && rnd.IntN(3) == 0
	maxW := 4
	if rnd.IntN(6) == 0 {
		maxW = 1000
	}
	mid := int32(100)
	nns := 1 + rnd.IntN(3)
	equalSizes := rnd.IntN(8) == 0 // many equal size/weight ratios
	// Built-in ids are negative and their weights are editable through the journal (format.BuiltInGroupDefault /
	// BuiltInNamespaceDefault "can be overridden by journal"); a metric that was never given a group / namespace may
	// also carry the raw id 0, for which the sampler asks nobody and uses weight 1.  Each special id is used by at most
	// one namespace of a case (partitionByGroup splits on a change of GroupID only).
	specialNS := []int32{format.BuiltinNamespaceIDDefault, 0}
	specialGroups := []int32{format.BuiltinGroupIDDefault, format.BuiltinGroupIDBuiltin, format.BuiltinGroupIDHost, 0}
	rnd.Shuffle(len(specialNS), func(i, j int) { specialNS[i], specialNS[j] = specialNS[j], specialNS[i] })
	rnd.Shuffle(len(specialGroups), func(i, j int) { specialGroups[i], specialGroups[j] = specialGroups[j], specialGroups[i] })
	// weight the storage hands out for an id: edited (mostly), default 1, unusable 0 (the sampler clamps to 1) or no entry
	storedWeight := func(id int32) (stored bool, w int64) {
		if id == 0 {
			return false, 1 // nobody is asked about id 0
		}
		if id > 0 {
			return true, int64(1 + rnd.IntN(maxW))
		}
		switch rnd.IntN(8) {
		case 0:
			return false, 1 // built-in entity missing from the storage
		case 1:
			return true, 1 // never edited
		case 2:
			return true, 0 // clamped to 1 by the sampler
		}
		return true, int64(2 + rnd.IntN(maxW+2))
	}
	for nsi := 1; nsi <= nns; nsi++ {
		ns := int32(nsi)
		if len(specialNS) > 0 && rnd.IntN(4) == 0 {
			ns, specialNS = specialNS[0], specialNS[1:]
		}
		stored, nsw := storedWeight(ns)
		if stored {
			c.meta.nss[ns] = &format.NamespaceMeta{ID: ns, EffectiveWeight: nsw}
		}
		nsw = max(nsw, 1)
		for g, ng := 0, 1+rnd.IntN(3); g < ng; g++ {
			gid := int32(nsi*10 + g)
			if len(specialGroups) > 0 && rnd.IntN(4) == 0 {
				gid, specialGroups = specialGroups[0], specialGroups[1:]
			}
			stored, gw := storedWeight(gid)
			if stored {
				c.meta.groups[gid] = &format.MetricsGroup{ID: gid, NamespaceID: ns, EffectiveWeight: gw}
			}
			gw = max(gw, 1)
			for m, nm := 0, 1+rnd.IntN(3); m < nm; m++ {
				mid++
				sp := c06MetricSpec{ID: mid, NS: ns, Group: gid, W: int64(1 + rnd.IntN(maxW)), NSW: nsw, GroupW: gw, Known: true}
				sp.RowSize = int64(1 + rnd.IntN(20))
				if rnd.IntN(6) == 0 {
					sp.RowSize = int64(1 + rnd.IntN(3))
				}
				sp.Rows = 1 + rnd.IntN(12)
				if rnd.IntN(5) == 0 {
					sp.Rows = 1 + rnd.IntN(60)
				}
				if equalSizes {
					sp.RowSize, sp.Rows = 4, 1+rnd.IntN(3)
				}
				if quota {
					sp.Rows = 1 + rnd.IntN(6) // hosts
				}
				if c.Opt.Keys && rnd.IntN(3) == 0 {
					sp.Fair = 1 + rnd.IntN(3)
				} else if rnd.IntN(10) == 0 {
					sp.Fair = 1 + rnd.IntN(4) // the metric declares fair keys; 4 > maxFairKeyLen
				}
				if c.Opt.Budgets && rnd.IntN(3) == 0 {
					sp.Fixed = 1 + rnd.Int64N(2*sp.RowSize*int64(sp.Rows))
				}
				if rnd.IntN(12) == 0 {
					// metric unknown to the metadata: the sampler files it under the "missing" namespace and group, weight 1
					sp.Known, sp.NS, sp.Group, sp.W, sp.NSW, sp.GroupW = false, format.BuiltinNamespaceIDMissing, format.BuiltinGroupIDMissing, 1, 1, 1
				}
				c.Metrics = append(c.Metrics, sp)
			}
		}
	}
	for mi := range c.Metrics {
		sp := &c.Metrics[mi]
		var mm *format.MetricMetaValue
		if sp.Known {
			mm = &format.MetricMetaValue{MetricID: sp.ID, NamespaceID: sp.NS, GroupID: sp.Group, EffectiveWeight: sp.W}
			for f := 0; f < sp.Fair; f++ {
				mm.FairKeyIndex = append(mm.FairKeyIndex, 1+f)
			}
			c.meta.metrics[sp.ID] = mm
		} else {
			sp.Fair = 0
		}
		attach := sp.Known && rnd.IntN(2) == 0 // the agent hands the meta over with the item
		nfair := 0
		if c.Opt.Keys {
			nfair = min(sp.Fair, maxFairKeyLen)
		}
		for r := 0; r < sp.Rows; r++ {
			ci := &c06Item{metric: sp.ID, ns: sp.NS, group: sp.Group, size: sp.RowSize, nfair: nfair, fixed: sp.Fixed, whale: float64(rnd.IntN(5))}
			if quota {
				ci.size = int64(1 + rnd.IntN(5000))
			}
			mi := &MultiItem{}
			mi.Key.Metric = sp.ID
			if attach {
				mi.MetricMeta = mm
			}
			var ks []int
			for f := 0; f < sp.Fair && f < maxFairKeyLen; f++ {
				v := int32(rnd.IntN(3))
				mi.Key.Tags[1+f] = v
				ks = append(ks, int(v))
				if f < nfair {
					ci.fair[f] = v
				}
			}
			if len(ks) > 0 && len(sp.Keys) < 70 {
				sp.Keys = append(sp.Keys, ks)
			}
			mi.Key.Tags[6] = int32(r + 1)
			ci.item = mi
			c.items = append(c.items, ci)
			c.Total += ci.size
		}
	}
	switch rnd.IntN(8) {
	case 0:
		c.Budget = c.Total // exact fit at every level
	case 1:
		c.Budget = c.Total - 1
	case 2:
		c.Budget = 1 + rnd.Int64N(max(c.Total/10, 1))
	default:
		c.Budget = 1 + rnd.Int64N(c.Total*3/2+1)
	}
	if c.Budget < 1 {
		c.Budget = 1
	}
	rnd.Shuffle(len(c.items), func(i, j int) { c.items[i], c.items[j] = c.items[j], c.items[i] })
	return c
}

type c06Node struct {
	items  []*c06Item
	size   int64
	weight int64
	fixed  int64
	label  string
	key    int64
}

// partition by the level's key, in first-seen order; ok=false when the level does not apply
func c06Partition(its []*c06Item, path string, keyOf func(*c06Item) (int64, int64)) []*c06Node {
	parts := map[int64]*c06Node{}
	var nodes []*c06Node
	for _, ci := range its {
		k, w := keyOf(ci)
		n := parts[k]
		if n == nil {
			n = &c06Node{weight: w, label: fmt.Sprintf("%s/%d", path, k), key: k}
			parts[k] = n
			nodes = append(nodes, n)
		}
		n.items = append(n.items, ci)
		n.size += ci.size
	}
	sort.SliceStable(nodes, func(i, j int) bool { return nodes[i].size*nodes[j].weight < nodes[j].size*nodes[i].weight })
	return nodes
}

type c06Walk struct {
	r       *verifkit.Run
	w       *verifkit.Worker
	c       *c06Case
	quota   bool
	sfs     map[int32]float64 // reported by SampleFactorF
	wantSF  map[int32][]float64
	stop    bool
	skipFactor map[int32]bool
	clampKept  int64 // size kept by leaves whose budget was 0 (the sampler clamps the denominator to 1)
	clampKeptByMetric map[int32]int64
	witness func() any
	keptNonFixed int64
	phase   string
}

func (k *c06Walk) bad(key, f string, a ...any) {
	k.r.Violation("C06/"+key, fmt.Sprintf(f, a...), k.witness())
}

func (k *c06Walk) wholeKept(n *c06Node) bool {
	for _, ci := range n.items {
		if !ci.kept || ci.sf != 1 || (k.quota && ci.quota != ci.size) {
			return false
		}
	}
	return true
}

// levels below the (optional) fixed-budget split
func (k *c06Walk) levelKey(depth int) (func(*c06Item) (int64, int64), string) {
	c := k.c
	var ls []string
	if c.Opt.Namespaces {
		ls = append(ls, "ns")
	}
	if c.Opt.Groups {
		ls = append(ls, "group")
	}
	ls = append(ls, "metric", "key0", "key1", "key2")
	name := ls[depth]
	switch name {
	case "ns":
		return func(ci *c06Item) (int64, int64) {
			w := int64(1)
			if m := c.meta.nss[ci.ns]; m != nil && ci.ns != 0 { // id 0 = no such entity: nobody is asked, weight 1
				w = max(m.EffectiveWeight, 1)
			}
			return int64(ci.ns), w
		}, name
	case "group":
		return func(ci *c06Item) (int64, int64) {
			w := int64(1)
			if m := c.meta.groups[ci.group]; m != nil && ci.group != 0 { // id 0 = no such entity: nobody is asked, weight 1
				w = max(m.EffectiveWeight, 1)
			}
			return int64(ci.group), w
		}, name
	case "metric":
		return func(ci *c06Item) (int64, int64) {
			w := int64(1)
			if m := c.meta.metrics[ci.metric]; m != nil {
				w = m.EffectiveWeight
			}
			return int64(ci.metric), w
		}, name
	}
	f := int(name[3] - '0')
	return func(ci *c06Item) (int64, int64) { return int64(ci.fair[f]), 1 }, name
}

func (k *c06Walk) hasDeeper(depth int, n *c06Node) bool {
	_, name := k.levelKey(depth)
	switch name {
	case "ns", "group":
		return true
	case "metric":
		return n.items[0].nfair > 0
	}
	return int(name[3]-'0')+1 < n.items[0].nfair
}

// water-filling of one level with budget B; fixed-budget metrics (top level only) keep their own budgets
func (k *c06Walk) walk(its []*c06Item, depth int, B int64, path string, fixedNodes []*c06Node) {
	if k.stop {
		return
	}
	// fixed-budget metrics that overflow are sampled inside their own budget
	for _, f := range fixedNodes {
		if f.size <= f.fixed {
			continue
		}
		k.w.Count(k.phase+".sampled.fixed_budget_metric", 1)
		if f.items[0].nfair > 0 {
			sub := &c06Walk{r: k.r, w: k.w, c: k.c, sfs: k.sfs, wantSF: k.wantSF, skipFactor: k.skipFactor, clampKeptByMetric: k.clampKeptByMetric, witness: k.witness, phase: k.phase}
			// below a fixed metric only the fair-key levels remain
			d := 1
			if k.c.Opt.Namespaces {
				d++
			}
			if k.c.Opt.Groups {
				d++
			}
			sub.walk(f.items, d, f.fixed, f.label, nil)
		} else {
			sub := &c06Walk{r: k.r, w: k.w, c: k.c, sfs: k.sfs, wantSF: k.wantSF, skipFactor: k.skipFactor, clampKeptByMetric: k.clampKeptByMetric, witness: k.witness, phase: k.phase}
			sub.leaf(f, f.size, f.fixed, "fixed")
		}
	}
	keyOf, lname := k.levelKey(depth)
	nodes := c06Partition(its, path, keyOf)
	var W int64
	for _, n := range nodes {
		W += n.weight
	}
	// the reference's own water-filling of this level
	i := 0
	Brem, Wrem := B, W
	for ; i < len(nodes); i++ {
		n := nodes[i]
		if Brem*n.weight < Wrem*n.size {
			break
		}
		Brem -= n.size
		Wrem -= n.weight
	}
	// Fixed-budget metrics sit in the same ascending list (weight 1) and the sampler's first loop stops at the first
	// group of that list that does not fit.  firstMiss = smallest size/weight of a group that does not fit.
	missN, missD := int64(math.MaxInt64), int64(1) // ratio of the first group that does not fit
	if i < len(nodes) {
		missN, missD = nodes[i].size, nodes[i].weight
	}
	diverged := false
	for _, f := range fixedNodes {
		if f.size > f.fixed {
			if f.size*missD < missN*1 {
				missN, missD = f.size, 1
			}
			for j := 0; j < i; j++ { // a group the water-filling keeps whole is sorted at or after an overflowing fixed metric
				if nodes[j].size*1 >= f.size*nodes[j].weight {
					diverged = true
				}
			}
		}
	}
	afterMiss := func(size, weight int64) bool { return missN != math.MaxInt64 && size*missD >= missN*weight }
	// clause "within its share ⇒ kept whole with factor 1", with the budget and weights available at this level
	for _, n := range nodes {
		if n.size*W <= B*n.weight {
			k.w.Count(k.phase+".share_fits."+lname, 1)
			if !k.wholeKept(n) {
				cls := lname
				if diverged && afterMiss(n.size, n.weight) {
					cls = "fixed-budget-break/sibling" // sorted behind an over-budget fixed-budget metric
				}
				k.bad("share-fits-not-kept/"+cls, "partition %s (%s) has size %d ≤ its share %d·%d/%d of the parent budget but is not kept whole with factor 1", n.label, lname, n.size, B, n.weight, W)
				k.stop = true
				return
			}
		}
	}
	for _, f := range fixedNodes {
		if f.size <= f.fixed {
			k.w.Count(k.phase+".share_fits.fixed_budget_metric", 1)
			if !k.wholeKept(f) {
				cls := "fixed-budget-metric"
				if afterMiss(f.size, 1) {
					cls = "fixed-budget-break/fixed-metric" // sorted behind a group that does not fit
				}
				k.bad("share-fits-not-kept/"+cls, "metric %d has size %d ≤ its fixed budget %d but is not kept whole with factor 1", f.key, f.size, f.fixed)
				k.skipFactor[int32(f.key)] = true
			}
		}
	}
	if diverged {
		// the sampler's remaining budget at this level is no longer the water-filling one: nothing below is comparable
		k.r.NotJudged("rows.levels_below_a_fixed_budget_break", 1)
		k.stop = true
		return
	}
	type sib struct {
		size, weight int64
		sf           float64
		id           int32
	}
	var sibs []sib
	for ; i < len(nodes); i++ {
		n := nodes[i]
		k.w.Count(k.phase+".sampled."+lname, 1)
		if k.hasDeeper(depth, n) {
			k.walk(n.items, depth+1, (Brem*n.weight)/Wrem, n.label, nil)
			if k.stop {
				return
			}
			continue
		}
		k.leaf(n, Wrem*n.size, Brem*n.weight, lname)
		if lname == "metric" && !k.quota {
			if Brem >= 1 {
				sibs = append(sibs, sib{n.size, n.weight, k.sfs[int32(n.key)], int32(n.key)})
			} else {
				k.r.NotJudged("sibling_order_with_zero_remaining_budget", 1)
			}
		}
	}
	// siblings: larger size/weight never gets a smaller reported factor (nodes are in ascending ratio order)
	for a := 1; a < len(sibs); a++ {
		p, q := sibs[a-1], sibs[a]
		if p.sf == 0 || q.sf == 0 {
			continue // factor not reported: judged by the metric-factor clause
		}
		k.w.Count(k.phase+".sibling_pairs", 1)
		if p.sf > q.sf*(1+1e-12) {
			k.bad("sibling-order", "metric %d (size %d, weight %d) got factor %v, metric %d (size %d, weight %d) with a larger size/weight got %v", p.id, p.size, p.weight, p.sf, q.id, q.size, q.weight, q.sf)
		}
	}
}

// a sampled leaf: sf = num/den (den clamped to 1), ⌊len/(2sf)⌋ whales + ⌊rest/(2sf)⌋ selected (or all with sf when no whale fits)
func (k *c06Walk) leaf(n *c06Node, num, den int64, lname string) {
	if k.quota {
		// quota_i = ⌊size_i·den/num⌋; discarded when 0
		var sumQ int64
		for _, ci := range n.items {
			want := ci.size * den / num
			got := ci.quota
			if !ci.kept {
				got = 0
			}
			if got != want {
				k.bad("quota/not-proportional", "metric %d item of size %d got quota %d, proportional share ⌊%d·%d/%d⌋ = %d", n.items[0].metric, ci.size, got, ci.size, den, num, want)
				return
			}
			sumQ += got
		}
		return
	}
	clamped := den < 1
	if den < 1 {
		den = 1
	}
	if num < 1 {
		num = 1
	}
	want := float64(num) / float64(den)
	m := n.items[0].metric
	k.wantSF[m] = append(k.wantSF[m], want)
	// rows kept inside the leaf never exceed its share (equal row sizes): kept·num ≤ len·den … in sizes: keptSize·num ≤ size·den
	var keptSize int64
	for _, ci := range n.items {
		if ci.kept {
			keptSize += ci.size
			if ci.sf != 1 && math.Abs(ci.sf-want) > 1e-9*want && math.Abs(ci.sf-2*want) > 1e-9*want {
				k.r.NotJudged("rows.row_factor_differs_from_water_filling(C05 judges row factors)", 1)
			}
		}
	}
	if clamped {
		k.clampKept += keptSize
		k.clampKeptByMetric[m] += keptSize
	}
	if keptSize*num > n.size*den {
		cls := "leaf"
		if clamped {
			cls = "zero-budget-clamp"
		}
		k.bad("kept-over-budget/"+cls, "leaf %s (%s) keeps size %d of %d with budget %d/%d", n.label, lname, keptSize, n.size, n.size*den, num)
	}
}

func c06RunRows(r *verifkit.Run, w *verifkit.Worker, n int) {
	rnd := w.Rnd
	for it := 0; it < n; it++ {
		c := c06Gen(rnd, false)
		byItem := map[*MultiItem]*c06Item{}
		sfs := map[int32]float64{}
		s := NewSampler(SamplerConfig{
			SampleBudgets: c.Opt.Budgets, SampleNamespaces: c.Opt.Namespaces, SampleGroups: c.Opt.Groups, SampleKeys: c.Opt.Keys,
			Meta: c.meta, Rand: rand.New(1),
			RoundF:  func(b float64, _ *rand.Rand) float64 { return math.Floor(b) },
			SelectF: func(s []SamplingMultiItemPair, sf float64, _ *rand.Rand) int { return min(len(s), int(float64(len(s))/sf)) },
			KeepF: func(v *MultiItem, ts uint32, q uint32) {
				ci := byItem[v]
				ci.kept, ci.sf = true, v.SF
				ci.seen++
			},
			DiscardF: func(v *MultiItem, ts uint32) {
				ci := byItem[v]
				ci.sf = v.SF
				ci.seen++
			},
			SampleFactorF: func(m int32, sf float64) { sfs[m] = sf },
		})
		for _, ci := range c.items {
			byItem[ci.item] = ci
			p := SamplingMultiItemPair{Item: ci.item, WhaleWeight: ci.whale, Size: int(ci.size), MetricID: ci.metric}
			if c.Opt.Budgets {
				p.Budget = uint32(ci.fixed)
			}
			s.Add(p)
		}
		s.Run(c.Budget)
		witness := func() any {
			out := map[string]any{"case": c}
			var rows []string
			for _, ci := range c.items {
				if len(rows) < 200 {
					rows = append(rows, fmt.Sprintf("m%d fair%v size=%d kept=%v sf=%v", ci.metric, ci.fair[:ci.nfair], ci.size, ci.kept, ci.sf))
				}
			}
			sort.Strings(rows)
			out["rows"] = rows
			out["reported_metric_factors"] = fmt.Sprint(sfs)
			return out
		}
		bad := func(key, f string, a ...any) { r.Violation("C06/"+key, fmt.Sprintf(f, a...), witness()) }
		var keptNonFixed, totalNonFixed int64
		discards := 0
		fixedFits := true
		keptFixed := map[int32]int64{}
		sizeFixed := map[int32]int64{}
		for _, ci := range c.items {
			if ci.seen != 1 {
				bad("callbacks", "row got %d keep/discard callbacks", ci.seen)
			}
			isFixed := c.Opt.Budgets && ci.fixed > 0
			if isFixed {
				sizeFixed[ci.metric] += ci.size
			} else {
				totalNonFixed += ci.size
			}
			if ci.kept {
				if isFixed {
					keptFixed[ci.metric] += ci.size
				} else {
					keptNonFixed += ci.size
				}
			} else {
				discards++
			}
		}
		for _, sp := range c.Metrics {
			if c.Opt.Budgets && sp.Fixed > 0 {
				if sizeFixed[sp.ID] > sp.Fixed {
					fixedFits = false
				}
			}
		}
		fits := totalNonFixed <= c.Budget && fixedFits
		if fits {
			w.Count("rows.cases.whole_bucket_fits", 1)
			if discards > 0 {
				bad("fits-but-sampled", "bucket of size %d fits the budget %d (fixed-budget metrics fit theirs) but %d rows were discarded", totalNonFixed, c.Budget, discards)
			}
		}
		// reference walk
		var fixedNodes []*c06Node
		var rest []*c06Item
		if c.Opt.Budgets {
			byM := map[int32]*c06Node{}
			for _, ci := range c.items {
				if ci.fixed > 0 {
					n := byM[ci.metric]
					if n == nil {
						n = &c06Node{weight: 1, fixed: ci.fixed, key: int64(ci.metric), label: fmt.Sprintf("/fixed/%d", ci.metric)}
						byM[ci.metric] = n
						fixedNodes = append(fixedNodes, n)
					}
					n.items = append(n.items, ci)
					n.size += ci.size
				} else {
					rest = append(rest, ci)
				}
			}
		} else {
			rest = c.items
		}
		k := &c06Walk{r: r, w: w, c: c, sfs: sfs, wantSF: map[int32][]float64{}, skipFactor: map[int32]bool{}, clampKeptByMetric: map[int32]int64{}, witness: witness, phase: "rows"}
		if len(rest) > 0 {
			k.walk(rest, 0, c.Budget, "", fixedNodes)
		} else {
			// only fixed-budget metrics
			k.walkFixedOnly(fixedNodes)
		}
		for _, sp := range c.Metrics {
			if c.Opt.Budgets && sp.Fixed > 0 && keptFixed[sp.ID] > sp.Fixed {
				cls := "fixed-budget-metric"
				if keptFixed[sp.ID]-k.clampKeptByMetric[sp.ID] <= sp.Fixed {
					cls = "zero-budget-clamp"
				}
				bad("kept-over-budget/"+cls, "metric %d keeps %d with fixed budget %d", sp.ID, keptFixed[sp.ID], sp.Fixed)
			}
		}
		if keptNonFixed > c.Budget {
			cls := "total"
			if keptNonFixed-k.clampKept <= c.Budget {
				cls = "zero-budget-clamp" // the excess sits in leaves whose budget was 0 (denominator clamped to 1)
			}
			bad("kept-over-budget/"+cls, "kept size %d exceeds the budget %d (total %d)", keptNonFixed, c.Budget, totalNonFixed)
		}
		if !k.stop {
			// The factor the sampler reports per metric against the mean of the reference's leaf factors: this is more
			// than the property states (it only orders siblings), so a difference is shown in the evidence, not judged.
			for m, ws := range k.wantSF {
				var sum float64
				for _, x := range ws {
					sum += x
				}
				want := sum / float64(len(ws))
				got, ok := sfs[m]
				if !ok || math.Abs(got-want) > 1e-9*want {
					r.NotJudged("rows.reported_metric_factor_differs_from_water_filling", 1)
				}
				w.Count("rows.metric_factors_compared", 1)
			}
			for m := range sfs {
				if _, ok := k.wantSF[m]; !ok && !k.skipFactor[m] {
					r.NotJudged("rows.factor_reported_for_a_metric_kept_whole", 1)
				}
			}
		}
		nontrivial := !fits && len(c.Metrics) >= 2
		var sig strings.Builder
		fmt.Fprintf(&sig, "%v|%d|", c.Opt, c.Budget)
		for _, sp := range c.Metrics {
			fmt.Fprintf(&sig, "%d,%d,%d,%d,%d,%d,%d,%d,%d;", sp.NS, sp.Group, sp.W, sp.NSW, sp.GroupW, sp.RowSize, sp.Rows, sp.Fair, sp.Fixed)
		}
		w.Case(nontrivial, sig.String())
		if c.Opt.Budgets && len(fixedNodes) > 0 {
			w.Count("rows.cases.with_fixed_budget_metrics", 1)
		}
		var builtinGroup, zeroGroup, builtinNS, zeroNS, edited bool
		for _, sp := range c.Metrics {
			if !sp.Known {
				continue
			}
			builtinGroup = builtinGroup || sp.Group < 0
			zeroGroup = zeroGroup || sp.Group == 0
			builtinNS = builtinNS || sp.NS < 0
			zeroNS = zeroNS || sp.NS == 0
			edited = edited || (sp.Group < 0 && sp.GroupW > 1) || (sp.NS < 0 && sp.NSW > 1)
		}
		for name, on := range map[string]bool{"builtin_group_id": builtinGroup, "group_id_0": zeroGroup, "builtin_namespace_id": builtinNS, "namespace_id_0": zeroNS, "builtin_id_with_edited_weight": edited} {
			if on {
				w.Count("rows.cases.with_"+name, 1)
			}
		}
		if w.Index == 0 && it < 2 {
			r.Sample(map[string]any{"phase": "rows", "case": c, "kept_size": keptNonFixed, "discarded_rows": discards})
		}
	}
}

func (k *c06Walk) walkFixedOnly(fixedNodes []*c06Node) {
	for _, f := range fixedNodes {
		if f.size <= f.fixed {
			k.w.Count(k.phase+".share_fits.fixed_budget_metric", 1)
			if !k.wholeKept(f) {
				cls := "fixed-budget-metric"
				for _, o := range fixedNodes {
					if o.size > o.fixed && o.size <= f.size {
						cls = "fixed-budget-break/fixed-metric"
					}
				}
				k.bad("share-fits-not-kept/"+cls, "metric %d has size %d ≤ its fixed budget %d but is not kept whole with factor 1", f.key, f.size, f.fixed)
				k.skipFactor[int32(f.key)] = true
			}
			continue
		}
		k.w.Count(k.phase+".sampled.fixed_budget_metric", 1)
		if f.items[0].nfair > 0 {
			d := 1
			if k.c.Opt.Namespaces {
				d++
			}
			if k.c.Opt.Groups {
				d++
			}
			k.walk(f.items, d, f.fixed, f.label, nil)
		} else {
			k.leaf(f, f.size, f.fixed, "fixed")
		}
	}
}

func c06RunQuota(r *verifkit.Run, w *verifkit.Worker, n int) {
	rnd := w.Rnd
	for it := 0; it < n; it++ {
		c := c06Gen(rnd, true)
		byItem := map[*MultiItem]*c06Item{}
		realRounding := it%3 == 2 // calcHostMetricBudgets leaves RoundF unset: child budgets are rounded up or down at random
		var roundF func(float64, *rand.Rand) float64
		if !realRounding {
			roundF = func(b float64, _ *rand.Rand) float64 { return math.Floor(b) }
		}
		s := NewSampler(SamplerConfig{
			SampleNamespaces: c.Opt.Namespaces, SampleGroups: c.Opt.Groups, SampleKeys: false,
			Meta: c.meta, Rand: rand.New(r.SubSeed(fmt.Sprintf("quota/%d/%d", w.Index, it))), SampleF: SampleQuota, RoundF: roundF,
			KeepF: func(v *MultiItem, ts uint32, q uint32) {
				ci := byItem[v]
				ci.kept, ci.sf, ci.quota = true, v.SF, int64(q)
				ci.seen++
			},
			DiscardF: func(v *MultiItem, ts uint32) { byItem[v].seen++ },
		})
		for hi, ci := range c.items {
			byItem[ci.item] = ci
			ci.item.Key.Tags[1] = int32(hi + 1) // host, as calcHostMetricBudgets sets it
			s.Add(SamplingMultiItemPair{Item: ci.item, Size: int(ci.size), MetricID: ci.metric})
		}
		s.Run(c.Budget)
		witness := func() any {
			var rows []string
			for _, ci := range c.items {
				rows = append(rows, fmt.Sprintf("m%d size=%d kept=%v quota=%d", ci.metric, ci.size, ci.kept, ci.quota))
			}
			sort.Strings(rows)
			return map[string]any{"case": c, "items": rows}
		}
		bad := func(key, f string, a ...any) { r.Violation("C06/"+key, fmt.Sprintf(f, a...), witness()) }
		var sumQ int64
		perMetric := map[int32][]*c06Item{}
		for _, ci := range c.items {
			if ci.seen != 1 {
				bad("quota/callbacks", "item got %d callbacks", ci.seen)
			}
			if ci.kept {
				sumQ += ci.quota
				if ci.quota < 1 {
					bad("quota/kept-with-zero-quota", "item of metric %d kept with quota %d", ci.metric, ci.quota)
				}
				if ci.quota > ci.size {
					bad("quota/above-size", "item of metric %d and size %d got quota %d", ci.metric, ci.size, ci.quota)
				}
			}
			perMetric[ci.metric] = append(perMetric[ci.metric], ci)
		}
		if sumQ > c.Budget && c.Total > c.Budget {
			if realRounding {
				// roundSampleFactor rounds child budgets up or down at random, so nested budgets meet their parent only in
				// expectation; the statement's budget clause is about deterministic selection/rounding: shown, not judged
				r.NotJudged("quota.sum_over_budget_under_random_rounding", 1)
				r.MaxCounter("quota.max_excess_under_random_rounding", sumQ-c.Budget)
			} else {
				bad("quota/sum-over-budget", "quotas sum to %d, budget %d (total size %d)", sumQ, c.Budget, c.Total)
			}
		}
		if c.Total <= c.Budget {
			w.Count("quota.cases.whole_bucket_fits", 1)
			for _, ci := range c.items {
				if !ci.kept || ci.quota != ci.size {
					bad("quota/fits-but-reduced", "everything fits (%d ≤ %d) but an item of size %d got quota %d kept=%v", c.Total, c.Budget, ci.size, ci.quota, ci.kept)
					break
				}
			}
		}
		// reference-free form of "proportional up to integer truncation": inside a metric the intervals
		// [quota/size, (quota+1)/size) share a point  ⇔  max quota_i/size_i < min (quota_j+1)/size_j
		for m, qs := range perMetric {
			whole := true
			for _, ci := range qs {
				whole = whole && ci.kept && ci.quota == ci.size
			}
			if whole {
				w.Count("quota.metrics_whole", 1)
				continue
			}
			w.Count("quota.metrics_reduced", 1)
			loN, loD := int64(0), int64(1)
			hiN, hiD := int64(math.MaxInt32), int64(1)
			for _, ci := range qs {
				q := ci.quota
				if !ci.kept {
					q = 0
				}
				if q*loD > loN*ci.size {
					loN, loD = q, ci.size
				}
				if (q+1)*hiD < hiN*ci.size {
					hiN, hiD = q+1, ci.size
				}
			}
			if loN*hiD >= hiN*loD {
				bad("quota/not-proportional", "metric %d: no common ratio, max quota/size = %d/%d ≥ min (quota+1)/size = %d/%d", m, loN, loD, hiN, hiD)
			}
		}
		if realRounding {
			w.Count("quota.cases.real_random_rounding(reference-free clauses only)", 1)
			w.Case(c.Total > c.Budget && len(c.Metrics) >= 2, fmt.Sprintf("rr%v|%d|%d", c.Opt, c.Budget, c.Total))
			continue
		}
		k := &c06Walk{r: r, w: w, c: c, quota: true, sfs: map[int32]float64{}, wantSF: map[int32][]float64{}, skipFactor: map[int32]bool{}, clampKeptByMetric: map[int32]int64{}, witness: witness, phase: "quota"}
		k.walk(c.items, 0, c.Budget, "", nil)
		var sig strings.Builder
		fmt.Fprintf(&sig, "q%v|%d|", c.Opt, c.Budget)
		for _, ci := range c.items {
			fmt.Fprintf(&sig, "%d:%d;", ci.metric, ci.size)
		}
		w.Case(c.Total > c.Budget && len(c.Metrics) >= 2, sig.String())
		if w.Index == 0 && it < 2 {
			r.Sample(map[string]any{"phase": "quota", "case": c, "quota_sum": sumQ})
		}
	}
}

func TestVerifC06(t *testing.T) {
	r := verifkit.Start(t, "C06", "data_model")
	defer r.Finish()
	r.SetRule("rows: 1–3 namespaces × 1–3 groups × 1–3 metrics (weights 1–4, sometimes up to 1000; ordinary positive ids mixed with the built-in default namespace −5 and built-in groups −4/−2/−3 whose stored weights are edited, default, 0 or absent, and raw id 0 = no group / no namespace; some metrics unknown to the metadata), 1–60 equal-sized rows per metric, 0–3 fair-key levels, " +
		"optional fixed per-metric budgets, every combination of SampleBudgets/Namespaces/Groups/Keys, budgets from 1 to 1.5×total incl. total and total−1; real sampler with SelectF=⌊len/sf⌋, RoundF=floor " +
		"against an integer water-filling walk. quota: one item per (metric, host), SampleF=SampleQuota as in calcHostMetricBudgets. " +
		"non-trivial = the bucket does not fit and has ≥2 metrics; distinct = distinct (options, budget, per-metric shape).")
	r.Assume("row sizes are equal inside a leaf partition (the suite's own convention for deterministic selection); SampleKeepSingle off and no NoSampleAgent metrics (they are C05's subject)")
	workers := 16
	nRows := r.N(24000, 400000)
	nQuota := r.N(12000, 200000)
	r.Parallel(workers, "rows", func(w *verifkit.Worker) { c06RunRows(r, w, nRows/workers) })
	r.Parallel(workers, "quota", func(w *verifkit.Worker) { c06RunQuota(r, w, nQuota/workers) })
}
