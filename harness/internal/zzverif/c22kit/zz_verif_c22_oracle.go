//go:build verif

// Package c22kit holds the generator and the oracle of check C22 (query time axes); it is
// shared by the data_model unit (bulk) and the api unit (real calcUTCOffset / shiftTimestamp).
// It uses only the exported API of data_model.
package c22kit

import (
	"fmt"
	"math/rand/v2"
	"time"

	"github.com/VKCOM/statshouse/internal/data_model"
	"github.com/VKCOM/statshouse/internal/format"
)

const (
	Month = 31 * 24 * 3600 // the "1M" step value
	Day   = 24 * 3600
	Week  = 7 * Day
)

var ZoneNames = []string{
	"UTC", "Europe/Moscow", "Europe/London", "Europe/Berlin", "Europe/Istanbul", "Europe/Lisbon", "Atlantic/Azores",
	"America/New_York", "America/Chicago", "America/Los_Angeles", "America/St_Johns", "America/Sao_Paulo", "America/Asuncion",
	"America/Santiago", "America/Havana", "America/Caracas", "America/Nuuk",
	"Asia/Kolkata", "Asia/Kathmandu", "Asia/Tehran", "Asia/Kabul", "Asia/Yangon", "Asia/Tokyo", "Asia/Shanghai", "Asia/Beirut", "Asia/Amman", "Asia/Gaza",
	"Africa/Cairo", "Africa/Casablanca", "Africa/Johannesburg",
	"Australia/Lord_Howe", "Australia/Adelaide", "Australia/Eucla", "Australia/Sydney",
	"Pacific/Chatham", "Pacific/Apia", "Pacific/Kiritimati", "Pacific/Marquesas", "Pacific/Auckland", "Pacific/Honolulu",
	"Antarctica/Troll",
}

type Zone struct {
	Name        string
	Loc         *time.Location
	EpochOffset int64 // zone offset in effect at 1970-01-01 00:00 local (what api.calcUTCOffset uses)
}

func LoadZones() (zones []Zone, missing []string) {
	for _, n := range ZoneNames {
		loc, err := time.LoadLocation(n)
		if err != nil {
			missing = append(missing, n)
			continue
		}
		// independent of calcUTCOffset: offset that makes local 1970-01-01 00:00:00
		u := time.Date(1970, 1, 1, 0, 0, 0, 0, loc).Unix()
		zones = append(zones, Zone{Name: n, Loc: loc, EpochOffset: -u})
	}
	return
}

// RefUTCOffset is the reference for api.calcUTCOffset: the epoch (a Thursday) shifted so
// that weeks start at weekStart, plus the zone's offset at the epoch.
func RefUTCOffset(z Zone, weekStart time.Weekday) int64 {
	return int64(time.Thursday-weekStart)*Day + z.EpochOffset
}

var TableSteps = []int64{1, 5, 15, 60, 300, 900, 3600, 4 * 3600, Day, Week, Month}

type MetricOff struct {
	Metric *format.MetricMetaValue
	Offset int64
}

type Case struct {
	Args      data_model.GetTimescaleArgs
	Zone      Zone
	WeekStart time.Weekday
	Metrics   []MetricOff
}

func (c *Case) String() string {
	a := c.Args
	s := fmt.Sprintf("start=%d end=%d step=%d now=%d width=%d mode=%d extend=%v zone=%s weekStart=%d utcOffset=%d", a.Start, a.End, a.Step, a.TimeNow, a.ScreenWidth, a.Mode, a.Extend, c.Zone.Name, c.WeekStart, a.UTCOffset)
	for _, m := range c.Metrics {
		s += fmt.Sprintf(" metric(res=%d,off=%d)", m.Metric.Resolution, m.Offset)
	}
	return s
}

// Interesting instants: DST transitions, a skipped local midnight on the 1st of a month
// (America/Asuncion 2017-10-01 and 2023-10-01), a skipped day (Pacific/Apia 2011-12-30).
var anchors = []int64{
	1506830400, // 2017-10-01 04:00 UTC = local midnight gap in America/Asuncion
	1696132800, // 2023-10-01 04:00 UTC, same
	1325239200, // 2011-12-30 10:00 UTC, Pacific/Apia skipped day
	1711846800, // 2024-03-31 01:00 UTC, EU DST start
	1729990800, // 2024-10-27 01:00 UTC, EU DST end
	1710054000, // 2024-03-10 07:00 UTC, US DST start
	1790000000,
	1600000000,
	86400 * 365,
}

var zoneMonthAnchors = map[string][]int64{
	"America/Asuncion":  {1506830400, 1696132800}, // 2017-10-01, 2023-10-01: midnight skipped
	"Asia/Amman":        {1459461600, 1301608800}, // 2016-04-01, 2011-04-01: midnight skipped
	"America/Havana":    {1333256400, 1446354000}, // 2012-04-01 skipped; 2015-11-01 repeated
	"Africa/Casablanca": {1212278400},             // 2008-06-01 skipped
	"Asia/Gaza":         {1096581600},             // 2004-10-01 repeated
}

func Gen(rnd *rand.Rand, zones []Zone, utcOffset func(Zone, time.Weekday) int64) Case {
	z := zones[rnd.IntN(len(zones))]
	ws := time.Weekday(rnd.IntN(7))
	var c Case
	c.Zone, c.WeekStart = z, ws
	now := anchors[rnd.IntN(len(anchors))]
	switch rnd.IntN(4) {
	case 0:
		now += rnd.Int64N(400 * Day)
	case 1:
		now += rnd.Int64N(3 * Day)
	case 2:
		now = 1_000_000_000 + rnd.Int64N(1_000_000_000)
	}
	span := []int64{1, 10, 100, 3600, Day, 10 * Day, 40 * Day, 100 * Day, 400 * Day, 1500 * Day}[rnd.IntN(10)]
	end := now - rnd.Int64N(450*Day) + rnd.Int64N(3600)
	switch rnd.IntN(12) {
	case 0:
		end = now + rnd.Int64N(5*Day) // reaches into the future
	case 1:
		end = now - rnd.Int64N(53*3600) // around the LOD switches
	case 2:
		end = now - 33*Day + rnd.Int64N(2*Day) - Day
	case 3:
		end = now + 1
	}
	start := end - 1 - rnd.Int64N(span)
	var step int64
	switch rnd.IntN(10) {
	case 0:
		step = 0
	case 1:
		step = rnd.Int64N(1 << 31)
	case 2:
		step = TableSteps[rnd.IntN(len(TableSteps))] + rnd.Int64N(3) - 1
	case 3, 4:
		step = Month
	default:
		step = TableSteps[rnd.IntN(len(TableSteps))]
	}
	if step < 0 {
		step = 0
	}
	if step == Month && rnd.IntN(2) == 0 { // monthly queries are long
		start = end - 1 - rnd.Int64N(3000*Day)
	}
	if za, ok := zoneMonthAnchors[z.Name]; ok && step == Month && rnd.IntN(2) == 0 {
		// month starts whose local midnight is skipped or repeated in this zone
		an := za[rnd.IntN(len(za))]
		start = an - rnd.Int64N(70*Day) + rnd.Int64N(45*Day)
		end = max(start+1, an+rnd.Int64N(250*Day))
		now = end + rnd.Int64N(100*Day)
	}
	a := data_model.GetTimescaleArgs{
		Start: start, End: end, Step: step, TimeNow: now,
		ScreenWidth: []int64{0, 0, 1, 100, 1000, 1920, 4000, 8000}[rnd.IntN(8)],
		Mode:        []data_model.QueryMode{data_model.RangeQuery, data_model.RangeQuery, data_model.InstantQuery, data_model.TagsQuery, data_model.PointQuery}[rnd.IntN(5)],
		Extend:      rnd.IntN(2) == 0,
		Location:    z.Loc,
		UTCOffset:   utcOffset(z, ws),
	}
	if rnd.IntN(8) == 0 {
		a.ScreenWidth = rnd.Int64N(8001)
	}
	nm := 1
	if rnd.IntN(4) == 0 {
		nm = 2 + rnd.IntN(2)
	}
	for i := 0; i < nm; i++ {
		m := &format.MetricMetaValue{MetricID: int32(1000 + i), Name: fmt.Sprintf("m%d", i), Resolution: []int{0, 1, 1, 5, 15, 60, 7}[rnd.IntN(7)]}
		if rnd.IntN(6) == 0 {
			m.PreKeyFrom = uint32(max(0, start+rnd.Int64N(max(1, end-start))))
		}
		var off int64
		if rnd.IntN(3) == 0 {
			switch rnd.IntN(6) {
			case 0:
				off = Day * int64(1+rnd.IntN(8))
			case 1:
				off = Week * int64(1+rnd.IntN(5))
			case 2:
				off = 3600 * int64(1+rnd.IntN(30))
			case 3:
				off = Month * int64(1+rnd.IntN(13))
			case 4:
				off = rnd.Int64N(100000)
			case 5:
				off = 365 * Day
			}
			if step == Month && rnd.IntN(4) != 0 {
				off = Month * int64(1+rnd.IntN(13))
			}
		}
		c.Metrics = append(c.Metrics, MetricOff{m, off})
	}
	c.Args = a
	return c
}

func mod(a, b int64) int64 { return ((a % b) + b) % b }

// refStepForward: the step of a point; for the monthly step the next point is the start of
// the next calendar month in the location.  Where local midnight of the 1st exists this is
// AddDate(0,1,0) of a month start (the calibrated DESIGN clause); where daylight saving time
// starts at that midnight the month begins when the gap ends.
func refStepForward(t, step int64, loc *time.Location) int64 {
	if step == Month {
		lt := time.Unix(t, 0).In(loc)
		return refMonthStart(lt.Year(), lt.Month()+1, loc)
	}
	return t + step
}

func refMonthStart(y int, m time.Month, loc *time.Location) int64 {
	d := time.Date(y, m, 1, 0, 0, 0, 0, loc)
	for i := 0; d.Day() != 1 && i < 24; i++ { // Date resolved the nonexistent midnight to the old offset: skip the gap
		d = d.Add(15 * time.Minute)
	}
	return d.Unix()
}

// firstInstantOfMonth: t is the first second of a calendar month in loc (robust against a
// local midnight that does not exist because of a DST gap).
// It also accepts 00:00:00 local on the 1st when that wall-clock time occurs twice (DST
// ends at the month start): DESIGN's clause is "first of month 00:00 local".
func firstInstantOfMonth(t int64, loc *time.Location) bool {
	a := time.Unix(t, 0).In(loc)
	if a.Day() != 1 {
		return false
	}
	if a.Hour() == 0 && a.Minute() == 0 && a.Second() == 0 {
		return true
	}
	b := time.Unix(t-1, 0).In(loc)
	return b.Month() != a.Month() || b.Year() != a.Year()
}

// skippedMidnight reports whether some month between t0 (minus a margin) and t1 starts
// with a local midnight that does not exist in loc (DST gap at 00:00 on the 1st).
func skippedMidnight(t0, t1 int64, loc *time.Location) (bool, string) {
	a := time.Unix(t0-45*Day, 0).In(loc)
	y, m := a.Year(), a.Month()
	for i := 0; i < 2000; i++ {
		d := time.Date(y, m, 1, 0, 0, 0, 0, loc)
		if d.Unix() > t1+45*Day {
			break
		}
		if d.Day() != 1 || d.Hour() != 0 {
			return true, fmt.Sprintf("%04d-%02d-01 00:00 does not exist in %s", y, int(m), loc)
		}
		m++
		if m > 12 {
			m, y = 1, y+1
		}
	}
	return false, ""
}

// repeatedMidnight reports whether some month between t0 and t1 (with a margin) starts
// with a local midnight that occurs twice (daylight saving time ends at 01:00 or 00:00 of
// the 1st, e.g. Asia/Gaza 2004-10-01, America/Havana 2015-11-01): the second before the
// 00:00:00 that time.Date returns is then still inside the new month.
func repeatedMidnight(t0, t1 int64, loc *time.Location) (bool, string) {
	a := time.Unix(t0-45*Day, 0).In(loc)
	y, m := a.Year(), a.Month()
	for i := 0; i < 2000; i++ {
		d := time.Date(y, m, 1, 0, 0, 0, 0, loc)
		if d.Unix() > t1+45*Day {
			break
		}
		if p := d.Add(-time.Second); d.Day() == 1 && d.Hour() == 0 && p.Month() == d.Month() {
			return true, fmt.Sprintf("%04d-%02d-01 00:00 occurs twice in %s", y, int(m), loc)
		}
		m++
		if m > 12 {
			m, y = 1, y+1
		}
	}
	return false, ""
}

func monthAlignKey(t0, t1 int64, loc *time.Location) (string, string) {
	if ok, which := skippedMidnight(t0, t1, loc); ok {
		return "month-align/skipped-local-midnight", " (" + which + ")"
	}
	if ok, which := repeatedMidnight(t0, t1, loc); ok {
		return "month-align/repeated-local-midnight", " (" + which + ")"
	}
	return "month-align/other", ""
}

type Sink interface {
	Bad(key, what string)
	Count(name string, d int64)
	NotJudged(name string, d int64)
}

// Judge evaluates one case against the real GetTimescale / GetLODs.  Returns whether a
// non-empty axis was judged and an abstraction of the case.
func Judge(c *Case, s Sink) (judged bool, nontrivial bool) {
	a := c.Args
	loc := a.Location
	a.QueryStat = data_model.QueryStat{}
	for _, m := range c.Metrics {
		a.QueryStat.Add(m.Metric, m.Offset)
	}
	ts, err := data_model.GetTimescale(a)
	if err != nil {
		s.Count("errors_returned", 1)
		return false, false
	}
	if len(ts.Time) == 0 {
		switch {
		case a.Start-a.QueryStat.MaxMetricOffset > a.TimeNow:
			s.NotJudged("empty_axis_range_in_future", 1)
		case a.Mode == data_model.PointQuery:
			s.NotJudged("empty_axis_point_query_without_full_step", 1)
		default:
			s.NotJudged("empty_axis_other", 1)
		}
		return false, false
	}
	monthly := ts.LODs[0].Step == Month
	cls := "fixed-step"
	if monthly {
		cls = "monthly"
	}
	hasOffset := a.QueryStat.MaxMetricOffset != 0
	if hasOffset {
		s.Count("axes_with_metric_offset", 1)
	}
	badKey := func(key, what string) {
		s.Bad("C22/"+key, what+" | "+c.String()+fmt.Sprintf(" | lods=%+v startX=%d view=%d..%d len=%d first=%v", ts.LODs, ts.StartX, ts.ViewStartX, ts.ViewEndX, len(ts.Time), ts.Time[:min(4, len(ts.Time))]))
	}
	bad := func(clause, what string) {
		if monthly {
			// a month start whose local midnight does not exist or occurs twice is a root cause of
			// its own (startOfLOD / StepForward / the "t-1 is in the previous month" assumption):
			// every clause failing on an axis that spans such a month start is keyed by it
			if k, which := monthAlignKey(ts.Time[0], max(a.End, ts.Time[len(ts.Time)-1]), loc); k != "month-align/other" {
				badKey(k, clause+": "+what+which)
				return
			}
		}
		s.Bad("C22/"+clause+"/"+cls, what+" | "+c.String()+fmt.Sprintf(" | lods=%+v startX=%d view=%d..%d len=%d first=%v", ts.LODs, ts.StartX, ts.ViewStartX, ts.ViewEndX, len(ts.Time), ts.Time[:min(4, len(ts.Time))]))
	}
	if a.Mode == data_model.PointQuery {
		// a point query returns the bounds of one interval; DESIGN scopes the axis clauses to
		// range modes: only monotony and alignment of both bounds are judged here
		s.Count("point_queries", 1)
		if len(ts.Time) != 2 || ts.Time[0] >= ts.Time[1] {
			bad("point/not-increasing", fmt.Sprintf("point query returned %v", ts.Time))
			return true, false
		}
		for _, t := range ts.Time {
			if monthly {
				if !firstInstantOfMonth(t, loc) {
					k, which := monthAlignKey(ts.Time[0], ts.Time[1], loc)
					badKey(k, fmt.Sprintf("point query bound %d (%s) is not the first instant of a month in %s%s", t, time.Unix(t, 0).In(loc), loc, which))
				}
			} else if mod(t+a.UTCOffset, ts.LODs[0].Step) != 0 {
				bad("point/align", fmt.Sprintf("bound %d is not aligned to step %d", t, ts.LODs[0].Step))
			}
		}
		s.NotJudged("point_query_coverage_clauses", 1)
		return true, false
	}
	// ---- LOD list: table resolutions, never growing toward the present, lengths add up
	sum := 0
	for i, l := range ts.LODs {
		if _, ok := data_model.LODTables[data_model.Version6][l.Step]; !ok {
			bad("lod-step-not-table", fmt.Sprintf("LOD %d has step %d", i, l.Step))
			return true, false
		}
		if i > 0 && ts.LODs[i-1].Step <= l.Step {
			bad("lod-step-grows", fmt.Sprintf("LOD %d step %d after step %d", i, l.Step, ts.LODs[i-1].Step))
		}
		if l.Len <= 0 {
			bad("lod-len", fmt.Sprintf("LOD %d has length %d", i, l.Len))
			return true, false
		}
		sum += l.Len
	}
	if sum != len(ts.Time) {
		bad("lod-len-sum", fmt.Sprintf("LOD lengths add up to %d, %d points", sum, len(ts.Time)))
		return true, false
	}
	if len(ts.Time) > data_model.MaxSlice {
		bad("too-many-points", fmt.Sprintf("%d points", len(ts.Time)))
	}
	// ---- points: increasing, exact step (also across LOD borders), aligned
	stepOf := make([]int64, 0, 8)
	_ = stepOf
	x := 0
	var lastStep int64
	for _, l := range ts.LODs {
		for j := 0; j < l.Len; j++ {
			t := ts.Time[x]
			if monthly {
				if !firstInstantOfMonth(t, loc) {
					k, which := monthAlignKey(ts.Time[0], t, loc)
					badKey(k, fmt.Sprintf("axis point %d at index %d (%s) is not the first instant of a month in %s%s", t, x, time.Unix(t, 0).In(loc), loc, which))
					return true, false
				}
			} else if mod(t+a.UTCOffset, l.Step) != 0 {
				bad("align", fmt.Sprintf("point %d at index %d is not aligned to step %d with utcOffset %d", t, x, l.Step, a.UTCOffset))
				return true, false
			}
			if x+1 < len(ts.Time) {
				nx := ts.Time[x+1]
				if nx <= t {
					bad("not-increasing", fmt.Sprintf("point %d at index %d followed by %d", t, x, nx))
					return true, false
				}
				if want := refStepForward(t, l.Step, loc); nx != want {
					where := "gap-within-lod"
					if j+1 == l.Len {
						where = "gap-at-lod-border"
					}
					if monthly {
						if k, which := monthAlignKey(ts.Time[0], nx, loc); k == "month-align/skipped-local-midnight" {
							badKey(k, fmt.Sprintf("axis point %d at index %d is followed by %d (%s), the next calendar month starts at %d%s", t, x, nx, time.Unix(nx, 0).In(loc), want, which))
							return true, false
						}
					}
					bad(where, fmt.Sprintf("point %d at index %d (step %d) followed by %d, want %d", t, x, l.Step, nx, want))
					return true, false
				}
			}
			lastStep = l.Step
			x++
		}
	}
	// ---- start / view indices
	n := len(ts.Time)
	if ts.StartX < 1 {
		bad("startx", fmt.Sprintf("StartX %d < 1", ts.StartX))
	}
	if a.Extend && ts.StartX != ts.ViewStartX-1 || !a.Extend && ts.StartX != ts.ViewStartX {
		bad("startx", fmt.Sprintf("StartX %d ViewStartX %d extend=%v", ts.StartX, ts.ViewStartX, a.Extend))
	}
	if ts.ViewStartX < 1 || ts.ViewStartX > n || ts.ViewEndX > n || ts.ViewEndX < ts.ViewStartX {
		bad("view-range", fmt.Sprintf("view %d..%d of %d points", ts.ViewStartX, ts.ViewEndX, n))
		return true, false
	}
	if ts.Time[ts.ViewStartX-1] >= a.Start {
		bad("viewstart-not-first", fmt.Sprintf("point before the view start, %d, is not before Start %d", ts.Time[ts.ViewStartX-1], a.Start))
	}
	if ts.ViewStartX < n && ts.Time[ts.ViewStartX] < a.Start {
		bad("viewstart-before-start", fmt.Sprintf("Time[ViewStartX]=%d < Start %d", ts.Time[ts.ViewStartX], a.Start))
	}
	if !hasOffset || !monthly {
		if ts.ViewEndX > ts.ViewStartX {
			last := ts.Time[ts.ViewEndX-1]
			if last >= a.End {
				bad("view-last-beyond-end", fmt.Sprintf("last viewed point %d >= End %d", last, a.End))
			}
			if refStepForward(last, lastStep, loc) < a.End {
				bad("end-not-covered", fmt.Sprintf("last viewed point %d + step %d does not reach End %d", last, lastStep, a.End))
			}
		} else {
			s.Count("axes_with_empty_view", 1)
			// nothing viewed: then no aligned point lies in [Start, End)
			if nx := refStepForward(ts.Time[ts.ViewStartX-1], ts.LODs[0].Step, loc); nx < a.End && nx >= a.Start {
				bad("view-empty-but-point-in-range", fmt.Sprintf("view is empty although the aligned point %d lies in [Start, End)", nx))
			}
		}
		wantN := ts.ViewEndX
		if a.Extend {
			wantN++
		}
		if n != wantN {
			bad("view-end", fmt.Sprintf("%d points, ViewEndX %d, extend=%v", n, ts.ViewEndX, a.Extend))
		}
	} else {
		// monthly axis with a metric offset: the LODs are counted on the range shifted by k*31
		// days, which is not k calendar months; how such an axis must cover End is not part of
		// the calibrated clause list: counted, not judged
		s.NotJudged("coverage_clauses_monthly_with_metric_offset", 1)
	}
	// ---- ranges handed to the storage layer
	for _, m := range c.Metrics {
		lods := ts.GetLODs(m.Metric, m.Offset)
		if len(lods) != len(ts.LODs) {
			bad("lods/count", fmt.Sprintf("%d ranges for %d LODs", len(lods), len(ts.LODs)))
			continue
		}
		s.Count("lod_lists_judged", 1)
		x = 0
		for i, l := range lods {
			if l.StepSec != ts.LODs[i].Step || l.Metric != m.Metric || l.Location != loc {
				bad("lods/fields", fmt.Sprintf("range %d: step %d, LOD step %d", i, l.StepSec, ts.LODs[i].Step))
			}
			if i > 0 && lods[i-1].ToSec != l.FromSec {
				bad("lods/not-contiguous", fmt.Sprintf("range %d ends at %d, range %d starts at %d", i-1, lods[i-1].ToSec, i, l.FromSec))
			}
			if l.ToSec <= l.FromSec {
				bad("lods/empty-range", fmt.Sprintf("range %d is [%d,%d)", i, l.FromSec, l.ToSec))
			}
			first, last := ts.Time[x], ts.Time[x+ts.LODs[i].Len-1]
			if !monthly {
				if l.FromSec != first-m.Offset || l.ToSec != last+l.StepSec-m.Offset {
					bad("lods/range-differs-from-points", fmt.Sprintf("range %d is [%d,%d), its points shifted by offset %d span [%d,%d)", i, l.FromSec, l.ToSec, m.Offset, first-m.Offset, last+l.StepSec-m.Offset))
				}
			} else if m.Offset == 0 {
				if l.FromSec != first || l.ToSec != refStepForward(last, Month, loc) {
					if k, which := monthAlignKey(first, l.ToSec, loc); k == "month-align/skipped-local-midnight" {
						badKey(k, fmt.Sprintf("monthly storage range %d is [%d,%d), its points span [%d,%d)%s", i, l.FromSec, l.ToSec, first, refStepForward(last, Month, loc), which))
					} else {
						bad("lods/range-differs-from-points", fmt.Sprintf("monthly range %d is [%d,%d), its points span [%d,%d)", i, l.FromSec, l.ToSec, first, refStepForward(last, Month, loc)))
					}
				}
			} else {
				// a monthly offset of k*31 days stands for k months (api.shiftTimestamp)
				k := int(m.Offset / Month)
				wantFrom := time.Unix(first, 0).In(loc).AddDate(0, -k, 0).Unix()
				if m.Offset%Month != 0 {
					s.NotJudged("monthly_offset_not_whole_months", 1)
				} else if l.FromSec != wantFrom {
					s.NotJudged("monthly_offset_range_start_not_k_months_back", 1)
				} else {
					s.Count("monthly_offset_range_start_k_months_back", 1)
				}
				if !firstInstantOfMonth(l.FromSec, loc) || !firstInstantOfMonth(l.ToSec, loc) {
					k, which := monthAlignKey(lods[0].FromSec, l.ToSec, loc)
					badKey(k, fmt.Sprintf("storage range %d [%d,%d) of a monthly axis with metric offset %d does not start/end at a month start%s", i, l.FromSec, l.ToSec, m.Offset, which))
				}
			}
			// every point of the level maps to its slot of the range (rows are placed with IndexOf)
			if !monthly || m.Offset == 0 {
				for _, j := range []int{0, ts.LODs[i].Len - 1, ts.LODs[i].Len / 2} {
					ix, err := l.IndexOf(ts.Time[x+j] - m.Offset)
					if err != nil || ix != j {
						bad("lods/index-of", fmt.Sprintf("range %d [%d,%d) step %d: IndexOf(point %d of the level, %d) = %d, %v", i, l.FromSec, l.ToSec, l.StepSec, j, ts.Time[x+j]-m.Offset, ix, err))
						break
					}
				}
				if !monthly && l.StepSec > 1 {
					if _, err := l.IndexOf(first - m.Offset + 1); err == nil {
						bad("lods/index-of", fmt.Sprintf("range %d step %d: IndexOf accepts the unaligned timestamp %d", i, l.StepSec, first-m.Offset+1))
					}
				}
				s.Count("index_of_checked", 1)
			}
			want := m.Metric.PreKeyOnly || (m.Metric.PreKeyFrom != 0 && int64(m.Metric.PreKeyFrom) <= l.FromSec)
			if l.HasPreKey != want {
				bad("lods/prekey", fmt.Sprintf("range %d HasPreKey=%v", i, l.HasPreKey))
			}
			x += ts.LODs[i].Len
		}
	}
	// the entry point used by the HTTP handlers gives the same ranges
	if len(c.Metrics) == 1 {
		a2 := c.Args
		a2.QueryStat = data_model.QueryStat{}
		a2.Metric, a2.Offset = c.Metrics[0].Metric, c.Metrics[0].Offset
		l2, err2 := data_model.GetLODs(a2)
		l1 := ts.GetLODs(a2.Metric, a2.Offset)
		if err2 != nil || len(l1) != len(l2) {
			bad("lods/entry-points-differ", fmt.Sprintf("GetLODs(args): %d ranges err %v; Timescale.GetLODs: %d ranges", len(l2), err2, len(l1)))
		} else {
			for i := range l1 {
				if l1[i] != l2[i] {
					bad("lods/entry-points-differ", fmt.Sprintf("range %d differs: %+v vs %+v", i, l1[i], l2[i]))
					break
				}
			}
		}
	}
	return true, len(ts.LODs) > 1 || ts.ViewStartX > 1 || monthly || n > 2
}

// Abstraction of a case for the distinct-case count.
func (c *Case) Abstraction() string { return c.String() }
