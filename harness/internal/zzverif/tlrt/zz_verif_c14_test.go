//go:build verif

package tlrt

// C14 — every protocol message and frame round-trips through its encodings.
// Unit "tlrt": statshouse/metadata/engine schema (gen2 factory, 173 items incl. the
// byte-slice variants of factory_bytes), sqlite checkpoint schema, barsic schema
// (no factory: hand-kept constructor list checked against the generated alias file at
// run time), and the bucket frame functions of internal/compress.
// The fsbinlog schema is only importable from inside internal/vkgo/binlog/fsbinlog and
// has its own unit there; both use the engine in zz_verif_c14_engine.go.

import (
	"bytes"
	"encoding/binary"
	"fmt"
	"go/ast"
	"go/parser"
	"go/token"
	"math"
	"math/rand/v2"
	"os"
	"path/filepath"
	"reflect"
	"sort"
	"strings"
	"testing"
	"time"

	"github.com/VKCOM/statshouse/internal/compress"
	"github.com/VKCOM/statshouse/internal/data_model"
	_ "github.com/VKCOM/statshouse/internal/data_model/gen2/factory"
	_ "github.com/VKCOM/statshouse/internal/data_model/gen2/factory_bytes"
	"github.com/VKCOM/statshouse/internal/data_model/gen2/meta"
	"github.com/VKCOM/statshouse/internal/vkgo/basictl"
	"github.com/VKCOM/statshouse/internal/vkgo/sqlitev2/checkpoint/gen2/tlsqlite"
	vktl "github.com/VKCOM/statshouse/internal/vkgo/vktl/gen/tl"
	"github.com/VKCOM/statshouse/internal/vkgo/vktl/gen/tlbarsic"
	"github.com/VKCOM/statshouse/internal/zzverif/verifkit"
)

func c14Gen2Items() []Item {
	var items []Item
	for _, ti := range meta.GetAllTLItems() {
		ti := ti
		it := Item{Schema: "gen2", Name: ti.TLName(), HasTL2: ti.HasTL2(), IsFunc: ti.IsFunction(),
			New: func() Codec { return ti.CreateObject() }}
		if reflect.TypeOf(ti.CreateObjectBytes()) != reflect.TypeOf(ti.CreateObject()) {
			it.NewBytes = func() Codec { return ti.CreateObjectBytes() }
		}
		items = append(items, it)
	}
	return items
}

func c14SqliteItems() []Item {
	fill := func(rnd *rand.Rand, c Codec) bool {
		mask := rnd.Uint32() >> uint(rnd.IntN(32))
		off := int64(rnd.Uint64()) >> uint(rnd.IntN(64))
		meta := make([]byte, rnd.IntN(40))
		for i := range meta {
			meta[i] = byte('a' + rnd.IntN(26))
		}
		switch v := c.(type) {
		case *tlsqlite.Metainfo:
			v.FieldMask, v.Offset = mask&^1, off
			if mask&1 != 0 {
				v.SetControlMeta(string(meta))
			}
		case *tlsqlite.MetainfoBytes:
			v.FieldMask, v.Offset = mask&^1, off
			if mask&1 != 0 {
				v.SetControlMeta(meta)
			}
		}
		return true
	}
	return []Item{{Schema: "sqlite-checkpoint", Name: "sqlite.metainfo", Fill: fill,
		New: func() Codec { return &tlsqlite.Metainfo{} }, NewBytes: func() Codec { return &tlsqlite.MetainfoBytes{} }}}
}

// c14BarsicCtors: alias name in the generated tlbarsic / tl package → constructors.
var c14BarsicCtors = map[string][2]func() Codec{
	"tlbarsic.ApplyPayload":               {func() Codec { return &tlbarsic.ApplyPayload{} }, func() Codec { return &tlbarsic.ApplyPayloadBytes{} }},
	"tlbarsic.ChangeRole":                 {func() Codec { return &tlbarsic.ChangeRole{} }, nil},
	"tlbarsic.Commit":                     {func() Codec { return &tlbarsic.Commit{} }, func() Codec { return &tlbarsic.CommitBytes{} }},
	"tlbarsic.EngineStarted":              {func() Codec { return &tlbarsic.EngineStarted{} }, func() Codec { return &tlbarsic.EngineStartedBytes{} }},
	"tlbarsic.EngineStatus":               {func() Codec { return &tlbarsic.EngineStatus{} }, func() Codec { return &tlbarsic.EngineStatusBytes{} }},
	"tlbarsic.EngineWantsRestart":         {func() Codec { return &tlbarsic.EngineWantsRestart{} }, nil},
	"tlbarsic.Reindex":                    {func() Codec { return &tlbarsic.Reindex{} }, nil},
	"tlbarsic.Revert":                     {func() Codec { return &tlbarsic.Revert{} }, nil},
	"tlbarsic.Shutdown":                   {func() Codec { return &tlbarsic.Shutdown{} }, nil},
	"tlbarsic.Skip":                       {func() Codec { return &tlbarsic.Skip{} }, nil},
	"tlbarsic.SnapshotDependency":         {func() Codec { return &tlbarsic.SnapshotDependency{} }, func() Codec { return &tlbarsic.SnapshotDependencyBytes{} }},
	"tlbarsic.SnapshotExternalFile":       {func() Codec { return &tlbarsic.SnapshotExternalFile{} }, func() Codec { return &tlbarsic.SnapshotExternalFileBytes{} }},
	"tlbarsic.SnapshotHeader":             {func() Codec { return &tlbarsic.SnapshotHeader{} }, func() Codec { return &tlbarsic.SnapshotHeaderBytes{} }},
	"tlbarsic.Split":                      {func() Codec { return &tlbarsic.Split{} }, func() Codec { return &tlbarsic.SplitBytes{} }},
	"tlbarsic.Start":                      {func() Codec { return &tlbarsic.Start{} }, func() Codec { return &tlbarsic.StartBytes{} }},
	"tlbarsic.VectorSnapshotDependency":   {func() Codec { return &tlbarsic.VectorSnapshotDependency{} }, func() Codec { return &tlbarsic.VectorSnapshotDependencyBytes{} }},
	"tlbarsic.VectorSnapshotExternalFile": {func() Codec { return &tlbarsic.VectorSnapshotExternalFile{} }, func() Codec { return &tlbarsic.VectorSnapshotExternalFileBytes{} }},
	"tl.VectorLong":                       {func() Codec { return &vktl.VectorLong{} }, nil},
}

var c14BarsicFunctions = map[string]bool{"ApplyPayload": true, "ChangeRole": true, "Commit": true, "EngineStarted": true, "EngineStatus": true, "EngineWantsRestart": true,
	"Reindex": true, "Revert": true, "Shutdown": true, "Skip": true, "Split": true, "Start": true}

// c14ScanAliases lists the exported type aliases of a generated alias file.
func c14ScanAliases(path, pkg string) (names []string, err error) {
	f, err := parser.ParseFile(token.NewFileSet(), path, nil, 0)
	if err != nil {
		return nil, err
	}
	for _, d := range f.Decls {
		gd, ok := d.(*ast.GenDecl)
		if !ok || gd.Tok != token.TYPE {
			continue
		}
		for _, s := range gd.Specs {
			ts := s.(*ast.TypeSpec)
			n := ts.Name.Name
			if !ts.Name.IsExported() || strings.HasSuffix(n, "__Result") || n == "Client" || n == "Handler" {
				continue
			}
			names = append(names, pkg+"."+n)
		}
	}
	return names, nil
}

func c14BarsicItems(r *verifkit.Run) []Item {
	repo := os.Getenv("VERIF_REPO")
	if repo == "" {
		repo = "/repo"
	}
	var listed []string
	for _, f := range [][2]string{{"internal/vkgo/vktl/gen/tlbarsic/tlbarsic.go", "tlbarsic"}, {"internal/vkgo/vktl/gen/tl/tl.go", "tl"}} {
		names, err := c14ScanAliases(filepath.Join(repo, f[0]), f[1])
		if err != nil {
			r.Inconclusive("cannot scan generated alias file " + f[0] + ": " + err.Error())
			return nil
		}
		listed = append(listed, names...)
	}
	known := map[string]bool{}
	for n, c := range c14BarsicCtors {
		known[n] = true
		if c[1] != nil {
			known[n+"Bytes"] = true
		}
	}
	var missing []string
	for _, n := range listed {
		if !known[n] {
			missing = append(missing, n)
		}
		delete(known, n)
	}
	if len(missing) != 0 || len(known) != 0 {
		extra := []string{}
		for n := range known {
			extra = append(extra, n)
		}
		sort.Strings(extra)
		r.Inconclusive(fmt.Sprintf("barsic type list of the harness is out of date: generated files declare %v that the harness does not know; harness knows %v that the files do not declare", missing, extra))
	}
	r.SetCounter("types.barsic_aliases_scanned", int64(len(listed)))
	var items []Item
	names := []string{}
	for n := range c14BarsicCtors {
		names = append(names, n)
	}
	sort.Strings(names)
	for _, n := range names {
		c := c14BarsicCtors[n]
		items = append(items, Item{Schema: "barsic", Name: n, New: c[0], NewBytes: c[1], IsFunc: c14BarsicFunctions[strings.TrimPrefix(n, "tlbarsic.")]})
	}
	return items
}

func TestVerifC14(t *testing.T) {
	r := verifkit.Start(t, "C14", "tlrt")
	defer r.Finish()
	r.SetRule("types: every item of the generated factories, N values each: FillRandom through a source that also draws boundary integers/floats (negative, ±2^31, ±2^63, −0, denormals, NaN/Inf in a tenth), a third of them with some non-empty strings replaced by long (253…70000 bytes), escape-needing or invalid-UTF-8 content; each value goes through bare and boxed TL1 (with prefix and trailer bytes, every/sampled truncation, a corrupted tag), JSON (both type-name modes, Marshal/Unmarshal), TL2 where generated, the byte-slice variant, and for functions a random result through TL1↔JSON↔TL2. Non-trivial = the value has a non-empty body; distinct = distinct (type, encoding). " +
		"frames: payloads of 0…1 MiB (10 MiB in the thorough tier): random, repetitive, TL-like; frames cut short, size fields rewritten, compressed bytes truncated/flipped.")
	gen2 := c14Gen2Items()
	if len(gen2) < 100 {
		r.Inconclusive(fmt.Sprintf("factory lists only %d items", len(gen2)))
	}
	r.SetCounter("types.gen2_factory_items", int64(len(gen2)))
	items := append(gen2, c14SqliteItems()...)
	items = append(items, c14BarsicItems(r)...)
	t0 := time.Now() // logged only
	RunItems(r, items, r.N(100, 3000))
	t.Logf("phase types %.1fs", time.Since(t0).Seconds())
	c14Primitives(r)
	t0 = time.Now()
	c14Frames(r)
	t.Logf("phase frames %.1fs", time.Since(t0).Seconds())
}

// ------------------------------------------------------------------ primitive codecs

// c14Primitives: basictl strings/numbers directly — 4-byte alignment, exact consumption,
// string vs bytes agreement at every header-format boundary (253/254, 2^24−1/2^24), and
// refusal of non-canonical encodings.
func c14Primitives(r *verifkit.Run) {
	rnd := r.Rand("primitives")
	lens := []int{0, 1, 2, 3, 4, 5, 252, 253, 254, 255, 256, 257, 65535, 65536, 1<<24 - 2, 1<<24 - 1, 1 << 24, 1<<24 + 1, 1<<24 + 3}
	for i := 0; i < r.N(300, 3000); i++ {
		lens = append(lens, rnd.IntN(600))
	}
	big := make([]byte, 1<<24+4)
	for i := range big {
		big[i] = byte(i*7 + i>>8)
	}
	for _, n := range lens {
		s := big[:n]
		prefix := []byte{1, 2, 3, 4, 5}[:rnd.IntN(6)]
		ws := basictl.StringWrite(append([]byte{}, prefix...), string(s))
		wb := basictl.StringWriteBytes(append([]byte{}, prefix...), s)
		wit := map[string]any{"string_len": n}
		switch {
		case !bytes.Equal(ws, wb):
			r.Violation("C14/basictl/string-vs-bytes-differ", fmt.Sprintf("StringWrite and StringWriteBytes encode a %d-byte string differently", n), wit)
		case !bytes.HasPrefix(ws, prefix):
			r.Violation("C14/basictl/write-clobbers-buffer", "StringWrite changed bytes before its output", wit)
		case (len(ws)-len(prefix))%4 != 0:
			r.Violation("C14/basictl/string-not-4-byte-aligned", fmt.Sprintf("a %d-byte string is encoded in %d bytes", n, len(ws)-len(prefix)), wit)
		}
		enc := ws[len(prefix):]
		trailer := []byte{9, 8, 7}[:rnd.IntN(4)]
		var gs string
		var gb []byte
		r1, e1 := basictl.StringRead(append(append([]byte{}, enc...), trailer...), &gs)
		r2, e2 := basictl.StringReadBytes(append(append([]byte{}, enc...), trailer...), &gb)
		if e1 != nil || e2 != nil || gs != string(s) || !bytes.Equal(gb, s) || !bytes.Equal(r1, trailer) || !bytes.Equal(r2, trailer) {
			r.Violation("C14/basictl/string-roundtrip", fmt.Sprintf("a %d-byte string does not read back (errors %v / %v, left %d / %d of %d trailing bytes)", n, e1, e2, len(r1), len(r2), len(trailer)), wit)
		}
		// every strict prefix is refused; non-zero padding is refused
		for _, k := range []int{0, 1, len(enc) - 1, rnd.IntN(len(enc))} {
			if k < 0 || k >= len(enc) {
				continue
			}
			if _, err := basictl.StringRead(enc[:k:k], &gs); err == nil {
				r.Violation("C14/basictl/truncated-string-accepted", fmt.Sprintf("the first %d of %d bytes of an encoded string were read without error", k, len(enc)), wit)
				break
			}
		}
		if pad := len(enc) - n - map[bool]int{true: 1, false: 4}[n <= 253]; n < 1<<24 && pad > 0 {
			dirty := append([]byte{}, enc...)
			dirty[len(dirty)-1] = 1
			if _, err := basictl.StringRead(dirty, &gs); err == nil {
				r.NotJudged("basictl-non-zero-string-padding-accepted", 1)
			}
		}
		r.Case(n > 0, fmt.Sprintf("string-len-%d", n))
	}
	// numbers: fixed widths, bit-exact
	for i := 0; i < r.N(2000, 200000); i++ {
		u := rnd.Uint64() >> uint(rnd.IntN(64))
		f := math.Float64frombits(u)
		w := basictl.NatWrite(nil, uint32(u))
		w = basictl.IntWrite(w, int32(u))
		w = basictl.LongWrite(w, int64(u))
		w = basictl.DoubleWrite(w, f)
		w = basictl.FloatWrite(w, math.Float32frombits(uint32(u)))
		var a uint32
		var b int32
		var c int64
		var d float64
		var e float32
		rest := append(append([]byte{}, w...), 0xEE)
		var err error
		for _, step := range []func() error{
			func() (e2 error) { rest, e2 = basictl.NatRead(rest, &a); return },
			func() (e2 error) { rest, e2 = basictl.IntRead(rest, &b); return },
			func() (e2 error) { rest, e2 = basictl.LongRead(rest, &c); return },
			func() (e2 error) { rest, e2 = basictl.DoubleRead(rest, &d); return },
			func() (e2 error) { rest, e2 = basictl.FloatRead(rest, &e); return },
		} {
			if err = step(); err != nil {
				break
			}
		}
		if err != nil || len(w) != 28 || a != uint32(u) || b != int32(u) || c != int64(u) || math.Float64bits(d) != u || math.Float32bits(e) != uint32(u) || len(rest) != 1 {
			r.Violation("C14/basictl/number-roundtrip", fmt.Sprintf("fixed-width numbers of bit pattern %#x do not read back (err %v, %d bytes written, %d left)", u, err, len(w), len(rest)), nil)
		}
		r.Case(u != 0, fmt.Sprintf("num-%x", u))
	}
}

// ------------------------------------------------------------------ frames

func c14Payload(rnd *rand.Rand, maxLen int) []byte {
	n := 0
	switch c := rnd.IntN(50); {
	case c < 5:
		n = rnd.IntN(4)
	case c < 20:
		n = rnd.IntN(200)
	case c < 35:
		n = rnd.IntN(20000)
	case c < 49:
		n = rnd.IntN(60000)
	default:
		n = rnd.IntN(maxLen + 1)
	}
	p := make([]byte, n)
	switch rnd.IntN(5) {
	case 0: // incompressible
		for i := 0; i+8 <= n; i += 8 {
			binary.LittleEndian.PutUint64(p[i:], rnd.Uint64())
		}
	case 1: // one byte repeated
		b := byte(rnd.Uint32())
		for i := range p {
			p[i] = b
		}
	case 2: // short period
		per := 1 + rnd.IntN(40)
		for i := range p {
			p[i] = byte(i % per * 7)
		}
	case 3: // TL-like: small little-endian words, short strings, zero padding
		for i := 0; i+4 <= n; i += 4 {
			binary.LittleEndian.PutUint32(p[i:], uint32(rnd.IntN(300)))
		}
	default: // runs of random and constant pieces
		for i := 0; i < n; {
			l := 1 + rnd.IntN(300)
			if i+l > n {
				l = n - i
			}
			if rnd.IntN(2) == 0 {
				for j := 0; j < l; j++ {
					p[i+j] = byte(rnd.Uint32())
				}
			}
			i += l
		}
	}
	return p
}

func c14Frames(r *verifkit.Run) {
	n := r.N(3000, 20000)
	maxLen := r.N(1<<20, data_model.MaxUncompressedBucketSize)
	workers := 8
	r.Parallel(workers, "frames", func(w *verifkit.Worker) {
		rnd := w.Rnd
		for i := 0; i < n/workers; i++ {
			p := c14Payload(rnd, maxLen)
			desc := fmt.Sprintf("payload len=%d head=%x", len(p), p[:min(len(p), 24)])
			var frame []byte
			if r.Guard("C14/frame/compress-panics", func() any { return desc }, func() { frame = compress.CompressAndFrame(p) }) {
				continue
			}
			size, data, err := compress.DeFrame(frame)
			if err != nil || int(size) != len(p) {
				r.Violation("C14/frame/deframe-of-own-frame", fmt.Sprintf("DeFrame(CompressAndFrame(p)) = size %d err %v for a %d-byte payload", size, err, len(p)), desc)
				continue
			}
			var back []byte
			if r.Guard("C14/frame/decompress-panics", func() any { return desc }, func() { back, err = compress.Decompress(size, data) }) {
				continue
			}
			if err != nil || !bytes.Equal(back, p) {
				r.Violation("C14/frame/roundtrip-differs", fmt.Sprintf("Decompress(DeFrame(CompressAndFrame(p))) differs from p (err %v)", err), desc)
			}
			stored := len(data) == len(p)
			if stored {
				w.Count("frames.stored", 1)
			} else {
				w.Count("frames.compressed", 1)
			}
			// ---- tampered frames: an error, or the original bytes — never other bytes
			tamper := func(kind string, f []byte, mustFail bool) {
				var out []byte
				var derr error
				wit := map[string]any{"payload": desc, "tamper": kind, "frame_len": len(f), "frame_head_hex": fmt.Sprintf("%x", f[:min(len(f), 32)])}
				if r.Guard("C14/frame/tampered-panics/"+kind, func() any { return wit }, func() {
					var s uint32
					var d []byte
					s, d, derr = compress.DeFrame(f)
					if derr == nil {
						if int(s) == len(d) {
							// size equal to the number of bytes that follow means "stored": by the
							// frame convention these bytes are the payload, nothing can be detected
							w.Count("frames.tampered_not_judged_size_equals_stored_length", 1)
							out, derr = nil, fmt.Errorf("not judged")
							return
						}
						out, derr = compress.Decompress(s, d)
					}
				}) {
					return
				}
				w.Count("frames.tampered."+kind, 1)
				if kind == "compressed-bytes-flipped" || kind == "stored-frame-wrong-size" {
					// the frame has no checksum: a flipped literal byte, or stored bytes that happen to
					// be an LZ4 block of the (wrong) declared size, are valid frames of another payload.
					// The statement is about sizes; these only must not panic.
					if derr == nil && !bytes.Equal(out, p) {
						w.Count("frames.tampered_not_judged_valid_frame_of_other_payload", 1)
					}
					return
				}
				if derr == nil && !bytes.Equal(out, p) {
					r.Violation("C14/frame/misread/"+kind, "a damaged frame was decoded without error into bytes that are not the payload", wit)
				} else if derr == nil && mustFail {
					r.Violation("C14/frame/accepted/"+kind, "a frame with a wrong size field was accepted", wit)
				}
			}
			for k := 0; k < 4 && k < len(frame); k++ {
				tamper("shorter-than-header", frame[:k], true)
			}
			if !stored {
				for _, s := range []uint32{0, 1, uint32(len(p)) - 1, uint32(len(p)) + 1, uint32(len(p)) * 2, data_model.MaxUncompressedBucketSize, data_model.MaxUncompressedBucketSize + 1, 1 << 31, 1<<32 - 1, rnd.Uint32()} {
					if int(s) == len(p) {
						continue
					}
					f := append([]byte{}, frame...)
					binary.LittleEndian.PutUint32(f, s)
					kind := "size-too-small"
					if int(s) > len(p) {
						kind = "size-too-big"
					}
					if s > data_model.MaxUncompressedBucketSize {
						kind = "size-above-limit"
					}
					tamper(kind, f, true)
				}
				if len(data) > 1 {
					tamper("compressed-bytes-truncated", frame[:4+rnd.IntN(len(data))], false)
					f := append([]byte{}, frame...)
					f[4+rnd.IntN(len(data))] ^= 1 << uint(rnd.IntN(8))
					tamper("compressed-bytes-flipped", f, false)
				}
			} else if len(p) > 0 {
				// a stored frame whose size field is wrong is read as compressed data
				for _, s := range []uint32{0, uint32(len(p)) - 1, uint32(len(p)) + 1, data_model.MaxUncompressedBucketSize + 1, 1<<32 - 1} {
					f := append([]byte{}, frame...)
					binary.LittleEndian.PutUint32(f, s)
					tamper("stored-frame-wrong-size", f, false)
				}
			}
			w.Case(len(p) > 16 && !stored, string(p))
		}
	})
	// frames above the limit: one compressible, one not (deterministic, both tiers)
	big := make([]byte, data_model.MaxUncompressedBucketSize+4096)
	f := compress.CompressAndFrame(big)
	if s, d, err := compress.DeFrame(f); err == nil {
		if out, derr := compress.Decompress(s, d); derr == nil {
			r.Violation("C14/frame/accepted/payload-above-limit", fmt.Sprintf("a compressed frame declaring %d bytes (limit %d) was decompressed (%d bytes)", s, data_model.MaxUncompressedBucketSize, len(out)), nil)
		}
	}
	rnd := r.Rand("bigframe")
	for i := 0; i+8 <= len(big); i += 8 {
		binary.LittleEndian.PutUint64(big[i:], rnd.Uint64())
	}
	f = compress.CompressAndFrame(big)
	if s, d, err := compress.DeFrame(f); err == nil && int(s) == len(d) {
		if out, derr := compress.Decompress(s, d); derr == nil && bytes.Equal(out, big) {
			// stored frames carry their payload verbatim: nothing is decompressed, nothing can be
			// misread; the limit is documented for the decompression buffer.  Recorded, not judged.
			r.NotJudged("stored-frame-above-limit-returned-verbatim", 1)
		} else if derr == nil {
			r.Violation("C14/frame/misread/stored-above-limit", "a stored frame above the limit was returned with different bytes", nil)
		}
	}
	r.Case(true, "frames-above-limit")
}
