//go:build verif

// Package tlrt is the C14 round-trip monitor for generated TL types.  It is a new package
// injected by /verif/check; this non-test file holds the engine so that in-package tests
// of other directories (fsbinlog's internal gen) can use the same oracle.
package tlrt

import (
	"bytes"
	"encoding/hex"
	"fmt"
	"math"
	"math/rand/v2"
	"reflect"
	"sort"
	"strings"
	"unicode/utf8"

	"github.com/VKCOM/statshouse/internal/vkgo/basictl"
)

// Codec is what every generated TL type offers (all generator versions in the tree).
type Codec interface {
	TLName() string
	TLTag() uint32
	ReadTL1(w []byte) ([]byte, error)
	ReadTL1Boxed(w []byte) ([]byte, error)
	WriteTL1General(w []byte) ([]byte, error)
	WriteTL1BoxedGeneral(w []byte) ([]byte, error)
	ReadJSONGeneral(jctx *basictl.JSONReadContext, in *basictl.JsonLexer) error
	WriteJSONGeneral(jctx *basictl.JSONWriteContext, w []byte) ([]byte, error)
	MarshalJSON() ([]byte, error)
	UnmarshalJSON([]byte) error
}

type TL2Codec interface {
	ReadTL2(r []byte, tctx *basictl.TL2ReadContext) ([]byte, error)
	WriteTL2(w []byte, tctx *basictl.TL2WriteContext) []byte
}

// FuncCodec is the result side of a generated function.
type FuncCodec interface {
	FillRandomResultTL1(rg *basictl.RandGenerator, w []byte) ([]byte, error)
	ReadResultTL1WriteResultJSON(jctx *basictl.JSONWriteContext, r []byte, w []byte) ([]byte, []byte, error)
	ReadResultJSONWriteResultTL1(jctx *basictl.JSONReadContext, r []byte, w []byte) ([]byte, []byte, error)
	ReadResultTL1WriteResultTL2(tctx *basictl.TL2WriteContext, r []byte, w []byte) ([]byte, []byte, error)
	ReadResultTL2WriteResultTL1(tctx *basictl.TL2ReadContext, r []byte, w []byte) ([]byte, []byte, error)
	ReadResultTL2WriteResultJSON(tctx *basictl.TL2ReadContext, jctx *basictl.JSONWriteContext, r []byte, w []byte) ([]byte, []byte, error)
	ReadResultJSONWriteResultTL2(jctx *basictl.JSONReadContext, tctx *basictl.TL2WriteContext, r []byte, w []byte) ([]byte, []byte, error)
}

type randomFiller interface {
	FillRandom(rg *basictl.RandGenerator)
}

// Item describes one type to the engine.
type Item struct {
	Schema   string
	Name     string
	New      func() Codec
	NewBytes func() Codec                       // nil if the type has no distinct byte-slice variant
	Fill     func(rnd *rand.Rand, c Codec) bool // nil ⇒ the type's own FillRandom through a hostile source
	HasTL2   bool
	IsFunc   bool
}

// Reporter is the part of verifkit the engine needs (Run and Worker-bound closures satisfy it).
type Reporter interface {
	Violation(key, what string, witness any)
	Count(name string, d int64)
	NotJudged(name string, d int64)
}

// ------------------------------------------------------------------ hostile random source

// Source implements basictl.Rand.  In hostile mode the integer and float draws come from
// boundary sets (FillRandom itself only produces non-negative integers and N(0,1) floats).
type Source struct {
	R       *rand.Rand
	Hostile bool
	NaNs    bool // allow non-finite floats
}

var hostileFloats = []float64{0, math.Copysign(0, -1), 1, -1, 0.1, -0.1, 1e-7, 1e21, 1e22, 1e300, -1e300, math.SmallestNonzeroFloat64, -math.SmallestNonzeroFloat64,
	math.MaxFloat64, -math.MaxFloat64, math.MaxFloat32, -math.MaxFloat32, math.SmallestNonzeroFloat32, 16777217, 9007199254740993, 0.30000000000000004, 3.4028235677973366e38, 1e39, 1.401298464324817e-45, 1e-46,
	2.2250738585072014e-308, 2.225073858507201e-308, 123456789.125}

func (s *Source) Uint32() uint32 { return s.R.Uint32() }

func (s *Source) Int31() int32 {
	if s.Hostile && s.R.IntN(3) == 0 {
		return []int32{0, 1, -1, math.MaxInt32, math.MinInt32, math.MinInt32 + 1, 127, 128, -128, -129, 65535, 65536, -65536}[s.R.IntN(13)]
	}
	if s.Hostile && s.R.IntN(3) == 0 {
		return int32(s.R.Uint32())
	}
	return s.R.Int32()
}

func (s *Source) Int63() int64 {
	if s.Hostile && s.R.IntN(3) == 0 {
		return []int64{0, 1, -1, math.MaxInt64, math.MinInt64, math.MinInt64 + 1, math.MaxInt32, math.MaxInt32 + 1, math.MinInt32, math.MinInt32 - 1, 1<<53 + 1, -(1<<53 + 1), 1 << 32, 9223372036854775806}[s.R.IntN(14)]
	}
	if s.Hostile && s.R.IntN(3) == 0 {
		return int64(s.R.Uint64())
	}
	return s.R.Int64()
}

func (s *Source) NormFloat64() float64 {
	if s.Hostile {
		switch s.R.IntN(4) {
		case 0:
			return hostileFloats[s.R.IntN(len(hostileFloats))]
		case 1:
			if s.NaNs {
				return []float64{math.NaN(), math.Inf(1), math.Inf(-1)}[s.R.IntN(3)]
			}
		case 2:
			f := math.Float64frombits(s.R.Uint64())
			if f == f && !math.IsInf(f, 0) {
				return f
			}
		}
	}
	return s.R.NormFloat64()
}

// ------------------------------------------------------------------ string mutation by reflection

// StringMode says which hostile content replaces (some) non-empty strings of a filled value.
// Only non-empty strings are replaced, by non-empty strings, so that fields which a
// fields-mask bit or a Maybe switches off (FillRandom leaves them empty) stay consistent.
type StringMode int

const (
	StringsAsFilled  StringMode = iota // untouched
	StringsLong                        // ASCII, lengths around 253/254/255/256, 1000, 70000
	StringsEscapes                     // valid UTF-8 that JSON must escape or that is multi-byte
	StringsInvalid                     // invalid UTF-8
	stringModes
)

func (m StringMode) String() string {
	return [...]string{"as-filled", "long", "needs-escapes", "invalid-utf8"}[m]
}

var escPieces = []string{"\"", "\\", "/", "\b", "\f", "\n", "\r", "\t", "\x00", "\x1f", "\x7f", "<", ">", "&", "\u00e9", "\u044f", "\u65e5\u672c", "\u2028", "\u00a0", "\ufeff", "\ufffd", "\U0001F600", "\U0010FFFF",
	"\\u0041", "{\"base64\":\"AA==\"}", "base64", "a", "Z", "0", " ", "NaN", "true", "null"}
var badPieces = []string{"\xff", "\xc3", "\xe2\x82", "\xed\xa0\x80", "\xc0\xaf", "\xf4\x90\x80\x80", "\x80", "a\xffb"}

func hostileString(rnd *rand.Rand, mode StringMode) []byte {
	var s []byte
	switch mode {
	case StringsLong:
		n := []int{252, 253, 254, 255, 256, 257, 1000, 65535, 65536, 70000}[rnd.IntN(10)]
		s = make([]byte, n)
		for i := range s {
			s[i] = byte('a' + (i+n)%26)
		}
	case StringsEscapes:
		for i, n := 0, 1+rnd.IntN(5); i < n; i++ {
			s = append(s, escPieces[rnd.IntN(len(escPieces))]...)
		}
	case StringsInvalid:
		for i, n := 0, 1+rnd.IntN(3); i < n; i++ {
			if rnd.IntN(2) == 0 {
				s = append(s, escPieces[rnd.IntN(len(escPieces))]...)
			}
			s = append(s, badPieces[rnd.IntN(len(badPieces))]...)
		}
	}
	return s
}

// MutateStrings walks v (a pointer to a generated struct) and replaces some non-empty
// strings / byte slices.  Dictionary keys (Go map keys of the string variants, the Key
// field of DictField* structs of the byte-slice variants) are only touched when withKeys
// is set.  It returns how many strings it replaced and how many of them were such keys.
func MutateStrings(rnd *rand.Rand, v any, mode StringMode, withKeys bool) (n int, keys int) {
	if mode == StringsAsFilled {
		return 0, 0
	}
	var walk func(rv reflect.Value, depth int, isKey bool)
	walk = func(rv reflect.Value, depth int, isKey bool) {
		if depth > 12 {
			return
		}
		hit := func() bool {
			if isKey && !withKeys {
				return false
			}
			if rnd.IntN(3) != 0 {
				return false
			}
			n++
			if isKey {
				keys++
			}
			return true
		}
		switch rv.Kind() {
		case reflect.Pointer, reflect.Interface:
			if !rv.IsNil() {
				walk(rv.Elem(), depth+1, false)
			}
		case reflect.Struct:
			dict := strings.HasPrefix(rv.Type().Name(), "DictField")
			for i := 0; i < rv.NumField(); i++ {
				if f := rv.Type().Field(i); f.IsExported() {
					walk(rv.Field(i), depth+1, dict && f.Name == "Key")
				}
			}
		case reflect.String:
			if rv.Len() > 0 && rv.CanSet() && hit() {
				rv.SetString(string(hostileString(rnd, mode)))
			}
		case reflect.Slice:
			if rv.Type().Elem().Kind() == reflect.Uint8 {
				if rv.Len() > 0 && rv.CanSet() && hit() {
					rv.SetBytes(hostileString(rnd, mode))
				}
				return
			}
			for i := 0; i < rv.Len(); i++ {
				walk(rv.Index(i), depth+1, false)
			}
		case reflect.Array:
			for i := 0; i < rv.Len(); i++ {
				walk(rv.Index(i), depth+1, false)
			}
		case reflect.Map:
			// dictionaries of the string variants are Go maps: rebuild with mutated keys/values
			// (two keys replaced by the same string merge into one entry, still a valid value)
			if rv.IsNil() || rv.Len() == 0 || !rv.CanSet() {
				return
			}
			out := reflect.MakeMapWithSize(rv.Type(), rv.Len())
			ks := rv.MapKeys()
			if rv.Type().Key().Kind() == reflect.String {
				sort.Slice(ks, func(a, b int) bool { return ks[a].String() < ks[b].String() }) // map order must not leak into the case list
			}
			for _, k := range ks {
				nk := reflect.New(rv.Type().Key()).Elem()
				nk.Set(k)
				walk(nk, depth+1, true)
				nv := reflect.New(rv.Type().Elem()).Elem()
				nv.Set(rv.MapIndex(k))
				walk(nv, depth+1, false)
				out.SetMapIndex(nk, nv)
			}
			rv.Set(out)
		}
	}
	walk(reflect.ValueOf(v), 0, false)
	return n, keys
}

// ------------------------------------------------------------------ the oracle

func hx(b []byte) string {
	if len(b) <= 2048 {
		return hex.EncodeToString(b)
	}
	return hex.EncodeToString(b[:2048]) + fmt.Sprintf("...(+%d bytes)", len(b)-2048)
}

func txt(b []byte) string {
	if len(b) <= 2048 {
		return string(b)
	}
	return string(b[:2048]) + fmt.Sprintf("...(+%d bytes)", len(b)-2048)
}

type caseCtx struct {
	rep      Reporter
	item     *Item
	dictKeys bool // some dictionary key was replaced by a hostile string
	mode     StringMode
	hostile bool
	seedTxt string
	boxed   []byte
}

func (c *caseCtx) bad(clause, class, what string, extra map[string]any) {
	w := map[string]any{"schema": c.item.Schema, "type": c.item.Name, "strings": c.mode.String(), "hostile_numbers": c.hostile, "case": c.seedTxt, "value_tl1_boxed_hex": hx(c.boxed)}
	for k, v := range extra {
		w[k] = v
	}
	key := "C14/" + clause + "/" + class
	if c.mode != StringsAsFilled {
		key += "/strings=" + c.mode.String()
		if c.dictKeys {
			key += "+dictionary-keys"
		}
	}
	if c.dictKeys && (c.mode == StringsEscapes || c.mode == StringsInvalid) && strings.Contains(clause, "json") {
		// one root cause each (JSON member names are neither unescaped on read nor writable
		// when not UTF-8), whichever JSON clause trips over it first
		w["clause"] = clause + "/" + class
		key = "C14/json/dictionary-keys/strings=" + c.mode.String()
	}
	c.rep.Violation(key, c.item.Name+": "+what, w)
}

func guard(f func()) (p any) {
	defer func() { p = recover() }()
	f()
	return nil
}

// Fill produces one random value of the item.  ok=false: the item cannot produce a value
// in this mode (counted by the caller).
func Fill(rnd *rand.Rand, it *Item, hostile, nans bool, mode StringMode, withKeys bool) (x Codec, replaced, keys int) {
	x = it.New()
	if it.Fill != nil {
		it.Fill(rnd, x)
	} else if f, ok := x.(randomFiller); ok {
		f.FillRandom(basictl.NewRandGenerator(&Source{R: rnd, Hostile: hostile, NaNs: nans}))
	}
	replaced, keys = MutateStrings(rnd, x, mode, withKeys)
	return x, replaced, keys
}

// CheckValue runs every round-trip clause on one value.  It returns the number of
// codec round trips it judged.
func CheckValue(rep Reporter, rnd *rand.Rand, it *Item, x Codec, hostile bool, mode StringMode, dictKeys bool, caseTxt string) (judged int) {
	c := &caseCtx{rep: rep, item: it, mode: mode, dictKeys: dictKeys, hostile: hostile, seedTxt: caseTxt}
	negZero := HasNegZero(x)
	// jsonSame judges a value read back from JSON text.  The generated JSON writers do not
	// carry the sign of a negative zero ("-0" is an omitted field or "0"), and -0 == 0 as
	// values: when the value holds a -0 the comparison falls back to the JSON text of both.
	jsonSame := func(clause, class, what string, y Codec, js []byte) {
		var again []byte
		var werr error
		if p := guard(func() { again, werr = y.WriteTL1BoxedGeneral(nil) }); p != nil || werr != nil {
			c.bad(clause, "reread-value-not-writable", fmt.Sprintf("value read from JSON cannot be written: %v %v", p, werr), map[string]any{"json": txt(js)})
			return
		}
		if bytes.Equal(again, c.boxed) {
			if !negZero && reflect.TypeOf(x) == reflect.TypeOf(y) {
				if path := DeepDiff(x, y); path != "" {
					c.bad(clause, class+"-field", what+": field "+path+" differs although both re-encode identically", map[string]any{"json": txt(js)})
				}
			}
			return
		}
		if negZero {
			js1, e1 := x.WriteJSONGeneral(&basictl.JSONWriteContext{}, nil)
			js2, e2 := y.WriteJSONGeneral(&basictl.JSONWriteContext{}, nil)
			if e1 == nil && e2 == nil && bytes.Equal(js1, js2) {
				rep.NotJudged("json-sign-of-negative-zero", 1)
				return
			}
		}
		c.bad(clause, class, what, map[string]any{"json": txt(js), "reread_tl1_boxed_hex": hx(again)})
	}
	// ---- TL1 bare
	prefix := []byte{0xAA, 0xBB, 0xCC}[:rnd.IntN(4)]
	trailer := []byte{0x5a, 0x01, 0xfe, 0x00, 0xff}[:rnd.IntN(6)]
	var bare, boxed []byte
	var err error
	if p := guard(func() { bare, err = x.WriteTL1General(append([]byte{}, prefix...)) }); p != nil {
		c.bad("tl1", "write-panics", fmt.Sprintf("WriteTL1General panicked: %v", p), nil)
		return judged
	}
	if err != nil {
		rep.NotJudged("value-not-writable-tl1", 1)
		return judged
	}
	if !bytes.HasPrefix(bare, prefix) {
		c.bad("tl1", "write-clobbers-buffer", "WriteTL1General changed the bytes before its output", nil)
		return judged
	}
	bare = bare[len(prefix):]
	if p := guard(func() { boxed, err = x.WriteTL1BoxedGeneral(nil) }); p != nil || err != nil {
		c.bad("tl1", "boxed-write-fails", fmt.Sprintf("bare write succeeded, boxed write failed: %v %v", p, err), nil)
		return judged
	}
	c.boxed = boxed
	if len(boxed)%4 != 0 || len(bare)%4 != 0 {
		c.bad("tl1", "not-4-byte-aligned", fmt.Sprintf("encoding length %d (bare) / %d (boxed) is not a multiple of 4", len(bare), len(boxed)), nil)
	}
	if tag := x.TLTag(); tag != 0 && len(boxed) >= 4 {
		if got := uint32(boxed[0]) | uint32(boxed[1])<<8 | uint32(boxed[2])<<16 | uint32(boxed[3])<<24; got != tag {
			c.bad("tl1", "boxed-tag", fmt.Sprintf("boxed encoding starts with %#08x, TLTag() is %#08x", got, tag), nil)
		} else if !bytes.Equal(boxed[4:], bare) && !strings.Contains(fmt.Sprintf("%T", x), "TLItemImpl") {
			// for unions the bare form is the boxed form; everything else is tag+bare
			if !bytes.Equal(boxed, bare) {
				c.bad("tl1", "boxed-is-not-tag-plus-bare", "boxed encoding is neither tag+bare nor (union) equal to bare", map[string]any{"bare_hex": hx(bare)})
			}
		}
	}
	readBack := func(clause string, newObj func() Codec, data []byte, read func(o Codec, b []byte) ([]byte, error)) Codec {
		y := newObj()
		in := append(append([]byte{}, data...), trailer...)
		var rest []byte
		var rerr error
		if p := guard(func() { rest, rerr = read(y, in) }); p != nil {
			c.bad(clause, "read-panics", fmt.Sprintf("reading back a written value panicked: %v", p), map[string]any{"encoding_hex": hx(data)})
			return nil
		}
		judged++
		if rerr != nil {
			c.bad(clause, "read-rejects-written", "reading back a written value failed: "+rerr.Error(), map[string]any{"encoding_hex": hx(data)})
			return nil
		}
		if !bytes.Equal(rest, trailer) {
			c.bad(clause, "read-consumed-wrong-length", fmt.Sprintf("reader left %d bytes, %d bytes followed the value", len(rest), len(trailer)), map[string]any{"encoding_hex": hx(data)})
			return nil
		}
		return y
	}
	sameValue := func(clause string, y Codec) {
		var again []byte
		var werr error
		if p := guard(func() { again, werr = y.WriteTL1BoxedGeneral(nil) }); p != nil || werr != nil {
			c.bad(clause, "reread-value-not-writable", fmt.Sprintf("value read back cannot be written: %v %v", p, werr), nil)
			return
		}
		if !bytes.Equal(again, boxed) {
			c.bad(clause, "value-differs", "value read back differs from the value written (compared by canonical TL1)", map[string]any{"reread_tl1_boxed_hex": hx(again)})
		} else if reflect.TypeOf(x) == reflect.TypeOf(y) {
			// the canonical comparison goes through the writer twice; a writer that loses something
			// the same way both times is only seen by comparing the Go values
			if path := DeepDiff(x, y); path != "" {
				c.bad(clause, "value-differs-field", "value read back differs from the value written in field "+path+" although both re-encode identically", nil)
			}
		}
	}
	if y := readBack("tl1-bare", it.New, bare, func(o Codec, b []byte) ([]byte, error) { return o.ReadTL1(b) }); y != nil {
		sameValue("tl1-bare", y)
	}
	if y := readBack("tl1-boxed", it.New, boxed, func(o Codec, b []byte) ([]byte, error) { return o.ReadTL1Boxed(b) }); y != nil {
		sameValue("tl1-boxed", y)
	}
	// a wrong tag must be refused
	if len(boxed) >= 4 && x.TLTag() != 0 {
		wrong := append([]byte{}, boxed...)
		wrong[rnd.IntN(4)] ^= 1 << uint(rnd.IntN(8))
		y := it.New()
		var rerr error
		if p := guard(func() { _, rerr = y.ReadTL1Boxed(wrong) }); p != nil {
			c.bad("tl1-boxed", "wrong-tag-panics", fmt.Sprintf("%v", p), nil)
		} else if rerr == nil {
			// a union accepts the tags of all its constructors: accept if the value read is a different constructor
			if y.TLTag() == x.TLTag() {
				c.bad("tl1-boxed", "wrong-tag-accepted", "a boxed value with a corrupted tag was read without error", map[string]any{"corrupted_hex": hx(wrong[:4])})
			}
		}
		judged++
	}
	// every strict prefix must be refused (the full read consumed exactly len(bare) bytes)
	if len(bare) > 0 {
		cuts := []int{0, len(bare) - 1, rnd.IntN(len(bare)), rnd.IntN(len(bare))}
		if len(bare) <= 64 {
			cuts = cuts[:0]
			for k := 0; k < len(bare); k++ {
				cuts = append(cuts, k)
			}
		}
		for _, k := range cuts {
			y := it.New()
			var rerr error
			if p := guard(func() { _, rerr = y.ReadTL1(bare[:k:k]) }); p != nil {
				c.bad("tl1-bare", "truncated-read-panics", fmt.Sprintf("reading the first %d of %d bytes panicked: %v", k, len(bare), p), map[string]any{"encoding_hex": hx(bare)})
				break
			} else if rerr == nil {
				c.bad("tl1-bare", "truncated-read-accepted", fmt.Sprintf("reading only the first %d of %d bytes succeeded", k, len(bare)), map[string]any{"encoding_hex": hx(bare)})
				break
			}
		}
		judged++
	}

	// ---- JSON
	for _, legacy := range []bool{false, true} {
		clause := "json"
		var js []byte
		if p := guard(func() { js, err = x.WriteJSONGeneral(&basictl.JSONWriteContext{LegacyTypeNames: legacy}, nil) }); p != nil || err != nil {
			c.bad(clause, "write-fails", fmt.Sprintf("WriteJSONGeneral failed: %v %v", p, err), nil)
			continue
		}
		y := it.New()
		var rerr error
		if p := guard(func() { rerr = y.ReadJSONGeneral(&basictl.JSONReadContext{LegacyTypeNames: legacy}, &basictl.JsonLexer{Data: js}) }); p != nil {
			c.bad(clause, "read-panics", fmt.Sprintf("reading back written JSON panicked: %v", p), map[string]any{"json": txt(js)})
			continue
		}
		judged++
		if rerr != nil {
			c.bad(clause, "read-rejects-written", "reading back written JSON failed: "+rerr.Error(), map[string]any{"json": txt(js)})
			continue
		}
		jsonSame(clause, "value-differs", "value read back from JSON differs from the value written (compared by canonical TL1)", y, js)
		if !legacy {
			// does the value keep pointing into the text it was read from?  (outside the
			// statement: recorded, not judged)
			before, e1 := y.WriteTL1BoxedGeneral(nil)
			for i := range js {
				js[i] = '#'
			}
			after, e2 := y.WriteTL1BoxedGeneral(nil)
			if e1 == nil && e2 == nil && !bytes.Equal(before, after) {
				rep.NotJudged("json-value-aliases-the-input-text", 1)
			}
		}
	}
	{ // the Marshal/Unmarshal pair
		var js []byte
		if p := guard(func() { js, err = x.MarshalJSON() }); p == nil && err == nil {
			y := it.New()
			var rerr error
			if p := guard(func() { rerr = y.UnmarshalJSON(js) }); p != nil {
				c.bad("json", "unmarshal-panics", fmt.Sprintf("%v", p), map[string]any{"json": txt(js)})
			} else if rerr != nil {
				c.bad("json", "unmarshal-rejects-marshalled", rerr.Error(), map[string]any{"json": txt(js)})
			} else {
				jsonSame("json", "unmarshal-value-differs", "UnmarshalJSON(MarshalJSON(x)) differs from x", y, js)
			}
			judged++
		} else {
			c.bad("json", "marshal-fails", fmt.Sprintf("%v %v", p, err), nil)
		}
	}

	// ---- TL2
	var tl2 []byte
	if xt, ok := x.(TL2Codec); ok && it.HasTL2 {
		if p := guard(func() { tl2 = xt.WriteTL2(append([]byte{}, prefix...), &basictl.TL2WriteContext{}) }); p != nil {
			c.bad("tl2", "write-panics", fmt.Sprintf("%v", p), nil)
		} else if !bytes.HasPrefix(tl2, prefix) {
			c.bad("tl2", "write-clobbers-buffer", "WriteTL2 changed the bytes before its output", nil)
			tl2 = nil
		} else {
			tl2 = tl2[len(prefix):]
			if y := readBack("tl2", it.New, tl2, func(o Codec, b []byte) ([]byte, error) { return o.(TL2Codec).ReadTL2(b, &basictl.TL2ReadContext{}) }); y != nil {
				sameValue("tl2", y)
				again := y.(TL2Codec).WriteTL2(nil, &basictl.TL2WriteContext{})
				if !bytes.Equal(again, tl2) {
					c.bad("tl2", "second-write-differs", "TL2 encoding of the value read back differs", map[string]any{"tl2_hex": hx(tl2), "again_hex": hx(again)})
				}
			}
			for _, k := range []int{0, len(tl2) - 1, rnd.IntN(len(tl2) + 1)} {
				if k < 0 || k >= len(tl2) {
					continue
				}
				y := it.New()
				if p := guard(func() { _, _ = y.(TL2Codec).ReadTL2(tl2[:k:k], &basictl.TL2ReadContext{}) }); p != nil {
					c.bad("tl2", "truncated-read-panics", fmt.Sprintf("reading the first %d of %d bytes panicked: %v", k, len(tl2), p), map[string]any{"tl2_hex": hx(tl2)})
					break
				}
			}
		}
	}

	// ---- byte-slice variant produces identical encodings
	if it.NewBytes != nil {
		yb := readBack("bytes-variant", it.NewBytes, boxed, func(o Codec, b []byte) ([]byte, error) { return o.ReadTL1Boxed(b) })
		if yb != nil {
			sameValue("bytes-variant", yb)
			if bb, err := yb.WriteTL1General(nil); err != nil || !bytes.Equal(bb, bare) {
				c.bad("bytes-variant", "tl1-bare-differs", "byte-slice variant encodes the same value differently (bare TL1)", map[string]any{"string_variant_hex": hx(bare), "bytes_variant_hex": hx(bb)})
			}
			js1, e1 := x.WriteJSONGeneral(&basictl.JSONWriteContext{}, nil)
			js2, e2 := yb.WriteJSONGeneral(&basictl.JSONWriteContext{}, nil)
			if e1 != nil || e2 != nil || !bytes.Equal(js1, js2) {
				c.bad("bytes-variant", "json-differs", "byte-slice variant encodes the same value differently (JSON)", map[string]any{"string_variant_json": txt(js1), "bytes_variant_json": txt(js2)})
			}
			if tl2 != nil {
				if ybt, ok := yb.(TL2Codec); ok {
					var t2 []byte
					if p := guard(func() { t2 = ybt.WriteTL2(nil, &basictl.TL2WriteContext{}) }); p != nil {
						c.bad("bytes-variant", "tl2-write-panics", fmt.Sprintf("%v", p), nil)
					} else if !bytes.Equal(t2, tl2) {
						c.bad("bytes-variant", "tl2-differs", "byte-slice variant encodes the same value differently (TL2)", map[string]any{"string_variant_hex": hx(tl2), "bytes_variant_hex": hx(t2)})
					}
				}
			}
			// and the other direction: JSON written by the bytes variant is read by the string variant
			if e2 == nil {
				y := it.New()
				if rerr := y.ReadJSONGeneral(&basictl.JSONReadContext{}, &basictl.JsonLexer{Data: js2}); rerr == nil {
					jsonSame("bytes-variant-json", "value-differs", "JSON written by the byte-slice variant reads back as a different value", y, js2)
				}
			}
			judged++
		}
	}
	return judged
}

// CheckFunctionResult round-trips one random result of a function through its encodings.
func CheckFunctionResult(rep Reporter, rnd *rand.Rand, it *Item, fn Codec, hostile bool, caseTxt string) (judged int) {
	f, ok := fn.(FuncCodec)
	if !ok {
		return 0
	}
	c := &caseCtx{rep: rep, item: it, hostile: hostile, seedTxt: caseTxt}
	var res []byte
	var err error
	if p := guard(func() { res, err = f.FillRandomResultTL1(basictl.NewRandGenerator(&Source{R: rnd, Hostile: hostile}), nil) }); p != nil {
		c.bad("result", "fill-panics", fmt.Sprintf("FillRandomResultTL1 panicked: %v", p), nil)
		return 0
	}
	if err != nil {
		rep.NotJudged("result-not-fillable", 1)
		return 0
	}
	c.boxed = res
	trailer := []byte{0x77, 0x00, 0x13}[:rnd.IntN(4)]
	in := append(append([]byte{}, res...), trailer...)
	var rest, js, back []byte
	if p := guard(func() { rest, js, err = f.ReadResultTL1WriteResultJSON(&basictl.JSONWriteContext{}, in, nil) }); p != nil || err != nil {
		c.bad("result-json", "tl1-to-json-fails", fmt.Sprintf("a random result could not be transcoded to JSON: %v %v", p, err), map[string]any{"result_tl1_hex": hx(res)})
		return 1
	}
	if !bytes.Equal(rest, trailer) {
		c.bad("result-json", "read-consumed-wrong-length", fmt.Sprintf("result reader left %d bytes, %d followed", len(rest), len(trailer)), map[string]any{"result_tl1_hex": hx(res)})
	}
	if p := guard(func() { _, back, err = f.ReadResultJSONWriteResultTL1(&basictl.JSONReadContext{}, js, nil) }); p != nil || err != nil {
		c.bad("result-json", "json-to-tl1-fails", fmt.Sprintf("result JSON could not be read back: %v %v", p, err), map[string]any{"result_json": txt(js)})
	} else if !bytes.Equal(back, res) {
		c.bad("result-json", "value-differs", "result read back from JSON differs", map[string]any{"result_json": txt(js), "result_tl1_hex": hx(res), "reread_tl1_hex": hx(back)})
	}
	judged++
	if it.HasTL2 {
		var t2 []byte
		if p := guard(func() { _, t2, err = f.ReadResultTL1WriteResultTL2(&basictl.TL2WriteContext{}, res, nil) }); p != nil || err != nil {
			c.bad("result-tl2", "tl1-to-tl2-fails", fmt.Sprintf("%v %v", p, err), map[string]any{"result_tl1_hex": hx(res)})
			return judged
		}
		if p := guard(func() { rest, back, err = f.ReadResultTL2WriteResultTL1(&basictl.TL2ReadContext{}, append(append([]byte{}, t2...), trailer...), nil) }); p != nil || err != nil {
			c.bad("result-tl2", "tl2-to-tl1-fails", fmt.Sprintf("%v %v", p, err), map[string]any{"result_tl2_hex": hx(t2)})
		} else {
			if !bytes.Equal(back, res) {
				c.bad("result-tl2", "value-differs", "result read back from TL2 differs", map[string]any{"result_tl2_hex": hx(t2), "result_tl1_hex": hx(res), "reread_tl1_hex": hx(back)})
			}
			if !bytes.Equal(rest, trailer) {
				c.bad("result-tl2", "read-consumed-wrong-length", fmt.Sprintf("TL2 result reader left %d bytes, %d followed", len(rest), len(trailer)), nil)
			}
		}
		var js2, t3 []byte
		if p := guard(func() { _, js2, err = f.ReadResultTL2WriteResultJSON(&basictl.TL2ReadContext{}, &basictl.JSONWriteContext{}, t2, nil) }); p != nil || err != nil {
			c.bad("result-tl2", "tl2-to-json-fails", fmt.Sprintf("%v %v", p, err), map[string]any{"result_tl2_hex": hx(t2)})
		} else if p := guard(func() { _, t3, err = f.ReadResultJSONWriteResultTL2(&basictl.JSONReadContext{}, &basictl.TL2WriteContext{}, js2, nil) }); p != nil || err != nil {
			c.bad("result-tl2", "json-to-tl2-fails", fmt.Sprintf("%v %v", p, err), map[string]any{"result_json": txt(js2)})
		} else if !bytes.Equal(t3, t2) {
			c.bad("result-tl2", "json-roundtrip-differs", "TL2 → JSON → TL2 of a result differs", map[string]any{"result_json": txt(js2), "result_tl2_hex": hx(t2), "again_tl2_hex": hx(t3)})
		}
		judged++
	}
	return judged
}

// DeepDiff compares two values of the same generated type field by field and returns the
// path of the first difference ("" if none).  nil and empty slices/maps are the same value,
// floats are compared by bit pattern except that all NaNs are alike.
func DeepDiff(a, b any) string {
	var diff func(x, y reflect.Value, path string, depth int) string
	diff = func(x, y reflect.Value, path string, depth int) string {
		if depth > 16 {
			return ""
		}
		if x.Kind() != y.Kind() {
			return path + " (kind)"
		}
		switch x.Kind() {
		case reflect.Pointer, reflect.Interface:
			if x.IsNil() || y.IsNil() {
				if x.IsNil() != y.IsNil() {
					return path + " (nil)"
				}
				return ""
			}
			return diff(x.Elem(), y.Elem(), path, depth+1)
		case reflect.Struct:
			if x.Type() != y.Type() {
				return path + " (type)"
			}
			for i := 0; i < x.NumField(); i++ {
				if d := diff(x.Field(i), y.Field(i), path+"."+x.Type().Field(i).Name, depth+1); d != "" {
					return d
				}
			}
		case reflect.Slice, reflect.Array:
			if x.Len() != y.Len() {
				return fmt.Sprintf("%s (len %d vs %d)", path, x.Len(), y.Len())
			}
			if x.Kind() == reflect.Slice && x.Type().Elem().Kind() == reflect.Uint8 {
				if !bytes.Equal(x.Bytes(), y.Bytes()) {
					return path
				}
				return ""
			}
			for i := 0; i < x.Len(); i++ {
				if d := diff(x.Index(i), y.Index(i), fmt.Sprintf("%s[%d]", path, i), depth+1); d != "" {
					return d
				}
			}
		case reflect.Map:
			if x.Len() != y.Len() {
				return fmt.Sprintf("%s (len %d vs %d)", path, x.Len(), y.Len())
			}
			for it := x.MapRange(); it.Next(); {
				yv := y.MapIndex(it.Key())
				if !yv.IsValid() {
					return fmt.Sprintf("%s[%v] (missing)", path, it.Key())
				}
				if d := diff(it.Value(), yv, fmt.Sprintf("%s[%v]", path, it.Key()), depth+1); d != "" {
					return d
				}
			}
		case reflect.String:
			if x.String() != y.String() {
				return path
			}
		case reflect.Bool:
			if x.Bool() != y.Bool() {
				return path
			}
		case reflect.Int, reflect.Int8, reflect.Int16, reflect.Int32, reflect.Int64:
			if x.Int() != y.Int() {
				return path
			}
		case reflect.Uint, reflect.Uint8, reflect.Uint16, reflect.Uint32, reflect.Uint64, reflect.Uintptr:
			if x.Uint() != y.Uint() {
				return path
			}
		case reflect.Float32, reflect.Float64:
			fx, fy := x.Float(), y.Float()
			if math.Float64bits(fx) != math.Float64bits(fy) && !(fx != fx && fy != fy) {
				return path
			}
		}
		return ""
	}
	return diff(reflect.ValueOf(a), reflect.ValueOf(b), "", 0)
}

// HasNegZero reports whether some float of v is a negative zero.
func HasNegZero(v any) bool {
	found := false
	var walk func(rv reflect.Value, depth int)
	walk = func(rv reflect.Value, depth int) {
		if depth > 12 || found {
			return
		}
		switch rv.Kind() {
		case reflect.Pointer, reflect.Interface:
			if !rv.IsNil() {
				walk(rv.Elem(), depth+1)
			}
		case reflect.Struct:
			for i := 0; i < rv.NumField(); i++ {
				walk(rv.Field(i), depth+1)
			}
		case reflect.Float32, reflect.Float64:
			f := rv.Float()
			found = found || (f == 0 && math.Signbit(f))
		case reflect.Slice, reflect.Array:
			for i := 0; i < rv.Len(); i++ {
				walk(rv.Index(i), depth+1)
			}
		case reflect.Map:
			for it := rv.MapRange(); it.Next(); {
				walk(it.Key(), depth+1)
				walk(it.Value(), depth+1)
			}
		}
	}
	walk(reflect.ValueOf(v), 0)
	return found
}

// ValidUTF8Strings reports whether all strings of v are valid UTF-8 (used for scoping).
func ValidUTF8Strings(v any) bool {
	ok := true
	var walk func(rv reflect.Value, depth int)
	walk = func(rv reflect.Value, depth int) {
		if depth > 12 || !ok {
			return
		}
		switch rv.Kind() {
		case reflect.Pointer, reflect.Interface:
			if !rv.IsNil() {
				walk(rv.Elem(), depth+1)
			}
		case reflect.Struct:
			for i := 0; i < rv.NumField(); i++ {
				walk(rv.Field(i), depth+1)
			}
		case reflect.String:
			ok = ok && utf8.ValidString(rv.String())
		case reflect.Slice, reflect.Array:
			if rv.Kind() == reflect.Slice && rv.Type().Elem().Kind() == reflect.Uint8 {
				ok = ok && utf8.Valid(rv.Bytes())
				return
			}
			for i := 0; i < rv.Len(); i++ {
				walk(rv.Index(i), depth+1)
			}
		}
	}
	walk(reflect.ValueOf(v), 0)
	return ok
}
