//go:build verif

package tlrt

import (
	"fmt"
	"math/rand/v2"

	"github.com/VKCOM/statshouse/internal/zzverif/verifkit"
)

// workerReporter lets the engine report through a kit worker (counters goroutine-local).
type c14Reporter struct {
	r *verifkit.Run
	w *verifkit.Worker
}

func (p c14Reporter) Violation(key, what string, witness any) { p.r.Violation(key, what, witness) }
func (p c14Reporter) Count(name string, d int64)              { p.w.Count(name, d) }
func (p c14Reporter) NotJudged(name string, d int64)          { p.r.NotJudged(name, d) }

// RunItems is the per-type workload shared by both units.
func RunItems(r *verifkit.Run, items []Item, perType int) {
	workers := 8
	r.Parallel(workers, "types", func(w *verifkit.Worker) {
		rep := c14Reporter{r, w}
		for ii := w.Index; ii < len(items); ii += workers {
			it := &items[ii]
			rnd := rand.New(rand.NewPCG(r.SubSeed("type/"+it.Schema+"/"+it.Name), 14))
			for k := 0; k < perType; k++ {
				// 40% as FillRandom makes them, 30% boundary numbers, 30% boundary numbers + hostile strings
				hostile, nans := k%10 >= 4, k%10 == 9
				mode := StringsAsFilled
				if k%10 >= 7 {
					mode = StringMode(1 + (k/10)%int(stringModes-1))
				}
				var x Codec
				var replaced, keys int
				withKeys := (k/10)%2 == 0 // dictionary keys are replaced in every other string case
				if p := guard(func() { x, replaced, keys = Fill(rnd, it, hostile, nans, mode, withKeys) }); p != nil {
					r.Violation("C14/fill/panics", fmt.Sprintf("%s: FillRandom panicked: %v", it.Name, p), map[string]any{"type": it.Name})
					continue
				}
				if mode != StringsAsFilled && replaced == 0 {
					mode = StringsAsFilled // nothing to replace in this value
				}
				caseTxt := fmt.Sprintf("type=%s k=%d", it.Name, k)
				n := CheckValue(rep, rnd, it, x, hostile, mode, keys > 0, caseTxt)
				if keys > 0 {
					w.Count("values.with_hostile_dictionary_keys", 1)
				}
				w.Count("roundtrips.value", int64(n))
				w.Count("values.strings="+mode.String(), 1)
				if it.IsFunc {
					var fn Codec = x
					n := CheckFunctionResult(rep, rnd, it, fn, hostile, caseTxt)
					w.Count("roundtrips.function_result", int64(n))
				}
				boxed, _ := x.WriteTL1BoxedGeneral(nil)
				w.Case(len(boxed) > 4, it.Schema+"/"+it.Name+"/"+string(boxed))
				if w.Index == 0 && ii < 3*workers && k == 5 {
					js, _ := x.WriteJSONGeneral(nil, nil)
					r.Sample(map[string]any{"type": it.Name, "json": txt(js), "tl1_boxed_hex": hx(boxed)})
				}
			}
		}
	})
	withBytes, withTL2, funcs := 0, 0, 0
	for _, it := range items {
		if it.NewBytes != nil {
			withBytes++
		}
		if it.HasTL2 {
			withTL2++
		}
		if it.IsFunc {
			funcs++
		}
	}
	r.Count("types.total", int64(len(items)))
	r.Count("types.with_bytes_variant", int64(withBytes))
	r.Count("types.with_tl2", int64(withTL2))
	r.Count("types.functions", int64(funcs))
}

