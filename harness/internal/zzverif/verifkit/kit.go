//go:build verif

// Package verifkit is the shared runtime-monitoring kit injected by /verif/check
// (go test -overlay) as a new package of the statshouse module.  It is never
// present in /repo itself.
package verifkit

import (
	"encoding/binary"
	"encoding/json"
	"fmt"
	"hash/fnv"
	"math/rand/v2"
	"os"
	"path/filepath"
	"runtime/debug"
	"sort"
	"strconv"
	"strings"
	"sync"
	"testing"
	"time"
)

// Finding is one entry of /verif/known_findings.json.
type Finding struct {
	Property string `json:"property"`
	Key      string `json:"key"`
	What     string `json:"what"`
	Status   string `json:"status"` // "known" | "fixed"
	Commit   string `json:"commit,omitempty"`
}

type ViolationRec struct {
	Key     string `json:"key"`
	What    string `json:"what"`
	Known   bool   `json:"known"`
	Count   int    `json:"count"`
	Replay  string `json:"replay,omitempty"`
	Witness any    `json:"witness,omitempty"`
}

// Result is what a harness process hands back to the driver.
type Result struct {
	Property     string           `json:"property"`
	Unit         string           `json:"unit"`
	Tier         string           `json:"tier"`
	Seed         uint64           `json:"seed"`
	Evaluations  int64            `json:"evaluations"`
	Distinct     int64            `json:"distinct_nontrivial"`
	Rule         string           `json:"rule"`
	Samples      []any            `json:"samples"`
	Counters     map[string]int64 `json:"counters"`
	NotJudged    map[string]int64 `json:"not_judged"`
	Shapes       int64            `json:"history_shapes"`
	Violations   []*ViolationRec  `json:"violations"`
	Inconclusive []string         `json:"inconclusive"`
	Assumptions  []string         `json:"assumptions"`
	WallS        float64          `json:"wall_s"`
	Completed    bool             `json:"completed"`
}

// Run is the per-process monitor state.  All methods are safe for concurrent use.
type Run struct {
	T        testing.TB
	Property string
	Unit     string
	Tier     string
	Seed     uint64
	OutPath  string
	ReplayDir string
	TmpDir   string

	mu        sync.Mutex
	start     time.Time
	evals     int64
	distinct  map[uint64]struct{}
	shapes    map[uint64]struct{}
	rule      string
	samples   []any
	maxSamples int
	counters  map[string]int64
	notJudged map[string]int64
	viol      map[string]*ViolationRec
	violOrder []string
	incon     []string
	assume    []string
	known     map[string]Finding
	replayN   int
	finished  bool
}

func envOr(k, d string) string {
	if v := os.Getenv(k); v != "" {
		return v
	}
	return d
}

// Start creates the Run for property/unit.  Skips the test when the binary is not
// driven by /verif/check (VERIF_OUT unset) so that an accidental plain run is inert.
func Start(t testing.TB, property, unit string) *Run {
	out := os.Getenv("VERIF_OUT")
	if out == "" {
		t.Skip("verif harness: VERIF_OUT not set (run through /verif/check)")
	}
	seed, _ := strconv.ParseUint(envOr("VERIF_SEED", "1"), 10, 64)
	r := &Run{
		T: t, Property: property, Unit: unit,
		Tier:      envOr("VERIF_TIER", "quick"),
		Seed:      seed,
		OutPath:   out,
		ReplayDir: envOr("VERIF_REPLAY_DIR", filepath.Join(filepath.Dir(out), "replays")),
		TmpDir:    envOr("VERIF_TMP", os.TempDir()),
		start:     time.Now(),
		distinct:  map[uint64]struct{}{},
		shapes:    map[uint64]struct{}{},
		counters:  map[string]int64{},
		notJudged: map[string]int64{},
		viol:      map[string]*ViolationRec{},
		known:     map[string]Finding{},
		maxSamples: 4,
	}
	if p := os.Getenv("VERIF_KNOWN"); p != "" {
		if b, err := os.ReadFile(p); err == nil {
			var fs []Finding
			if err := json.Unmarshal(b, &fs); err != nil {
				t.Fatalf("verifkit: cannot parse %s: %v", p, err)
			}
			for _, f := range fs {
				if f.Property == property && f.Status == "known" {
					r.known[f.Key] = f
				}
			}
		}
	}
	// a partial result is written at once so that a crash of the process is visible
	r.write(false)
	return r
}

func (r *Run) Quick() bool    { return r.Tier != "thorough" }
func (r *Run) Thorough() bool { return r.Tier == "thorough" }

// N picks the bound for the tier.
func (r *Run) N(quick, thorough int) int {
	if r.Thorough() {
		return thorough
	}
	return quick
}

func hash64(parts ...string) uint64 {
	h := fnv.New64a()
	for _, p := range parts {
		h.Write([]byte(p))
		h.Write([]byte{0})
	}
	return h.Sum64()
}

// Rand returns a deterministic PCG stream that is a pure function of
// (VERIF_SEED, property, unit, name).
func (r *Run) Rand(name string) *rand.Rand {
	return rand.New(rand.NewPCG(r.Seed, hash64(r.Property, r.Unit, name)))
}

// SubSeed derives a 64-bit seed (for code under test that wants an int seed).
func (r *Run) SubSeed(name string) uint64 {
	var b [8]byte
	binary.LittleEndian.PutUint64(b[:], r.Seed)
	return hash64(r.Property, r.Unit, name, string(b[:]))
}

func (r *Run) SetRule(rule string) {
	r.mu.Lock()
	r.rule = rule
	r.mu.Unlock()
}

func (r *Run) Assume(a string) {
	r.mu.Lock()
	for _, x := range r.assume {
		if x == a {
			r.mu.Unlock()
			return
		}
	}
	r.assume = append(r.assume, a)
	r.mu.Unlock()
}

// Case accounts for one judged case.  abstraction is a canonical string of the case
// (only hashed, never stored); nontrivial says whether the case meets the property's
// non-triviality rule.
func (r *Run) Case(nontrivial bool, abstraction string) {
	var h uint64
	if nontrivial {
		h = hash64(abstraction)
	}
	r.mu.Lock()
	r.evals++
	if nontrivial {
		r.distinct[h] = struct{}{}
	}
	r.mu.Unlock()
}

// CaseHash is Case with a pre-computed hash of the abstraction.
func (r *Run) CaseHash(nontrivial bool, h uint64) {
	r.mu.Lock()
	r.evals++
	if nontrivial {
		r.distinct[h] = struct{}{}
	}
	r.mu.Unlock()
}

// Shape records one observed history shape / interleaving (sequence of event kinds).
func (r *Run) Shape(s string) {
	h := hash64(s)
	r.mu.Lock()
	r.shapes[h] = struct{}{}
	r.mu.Unlock()
}

func (r *Run) Evaluations() int64 {
	r.mu.Lock()
	defer r.mu.Unlock()
	return r.evals
}

func (r *Run) DistinctCount() int64 {
	r.mu.Lock()
	defer r.mu.Unlock()
	return int64(len(r.distinct))
}

// Sample keeps the first few literal cases for the evidence file.
func (r *Run) Sample(v any) {
	r.mu.Lock()
	if len(r.samples) < r.maxSamples {
		r.samples = append(r.samples, v)
	}
	r.mu.Unlock()
}

func (r *Run) WantSample() bool {
	r.mu.Lock()
	defer r.mu.Unlock()
	return len(r.samples) < r.maxSamples
}

// Count adds to a monitor counter (events by kind, crash points hit, ...).
func (r *Run) Count(name string, d int64) {
	r.mu.Lock()
	r.counters[name] += d
	r.mu.Unlock()
}

func (r *Run) Counter(name string) int64 {
	r.mu.Lock()
	defer r.mu.Unlock()
	return r.counters[name]
}

// SetCounter overwrites a counter (gauges, maxima).
func (r *Run) SetCounter(name string, v int64) {
	r.mu.Lock()
	r.counters[name] = v
	r.mu.Unlock()
}

func (r *Run) MaxCounter(name string, v int64) {
	r.mu.Lock()
	if v > r.counters[name] {
		r.counters[name] = v
	}
	r.mu.Unlock()
}

// NotJudged counts a case class that is deliberately outside the oracle (scoping is
// visible in the evidence, not hidden).
func (r *Run) NotJudged(name string, d int64) {
	r.mu.Lock()
	r.notJudged[name] += d
	r.mu.Unlock()
}

// Inconclusive marks the run as not decided (hook never reached, checker timed out,
// too few events).  Never folded into held or violated.
func (r *Run) Inconclusive(reason string) {
	r.mu.Lock()
	r.incon = append(r.incon, reason)
	r.mu.Unlock()
}

// IsKnown says whether a signature is listed as a known finding.
func (r *Run) IsKnown(key string) bool {
	_, ok := r.known[key]
	return ok
}

// Violation records a violated oracle.  key is the stable signature of the failing
// input class / call site ("C02/sum-lost/min==max"); a key listed in
// known_findings.json with status "known" is reported as KNOWN-FINDING, everything
// else as VIOLATION.  witness is written to the replay file (first few per key).
func (r *Run) Violation(key, what string, witness any) {
	r.mu.Lock()
	defer r.mu.Unlock()
	v := r.viol[key]
	if v == nil {
		_, known := r.known[key]
		v = &ViolationRec{Key: key, What: what, Known: known}
		r.viol[key] = v
		r.violOrder = append(r.violOrder, key)
		v.Witness = witness
		if !known {
			r.replayN++
			p := filepath.Join(r.ReplayDir, fmt.Sprintf("%s-%s-%d.json", r.Property, sanitize(r.Unit), r.replayN))
			_ = os.MkdirAll(r.ReplayDir, 0o755)
			b, _ := json.MarshalIndent(map[string]any{
				"property": r.Property, "unit": r.Unit, "seed": r.Seed, "tier": r.Tier,
				"key": key, "what": what, "witness": witness,
			}, "", " ")
			if err := os.WriteFile(p, b, 0o644); err == nil {
				v.Replay = p
			}
		}
	}
	v.Count++
	if v.Count == 1 || v.Count%1000 == 0 {
		r.writeLocked(false)
	}
}

func sanitize(s string) string {
	return strings.Map(func(c rune) rune {
		if c >= 'a' && c <= 'z' || c >= 'A' && c <= 'Z' || c >= '0' && c <= '9' || c == '-' || c == '_' {
			return c
		}
		return '_'
	}, s)
}

// Violations returns the number of distinct not-known violation keys so far.
func (r *Run) Violations() int {
	r.mu.Lock()
	defer r.mu.Unlock()
	n := 0
	for _, v := range r.viol {
		if !v.Known {
			n++
		}
	}
	return n
}

// Guard runs f and turns a panic into a violation with the given key prefix.
func (r *Run) Guard(key string, witness func() any, f func()) (panicked bool) {
	defer func() {
		if p := recover(); p != nil {
			panicked = true
			var w any
			if witness != nil {
				w = witness()
			}
			r.Violation(key, fmt.Sprintf("panic: %v", p), map[string]any{"input": w, "stack": firstLines(string(debug.Stack()), 30)})
		}
	}()
	f()
	return false
}

func firstLines(s string, n int) string {
	l := strings.SplitN(s, "\n", n+1)
	if len(l) > n {
		l = l[:n]
	}
	return strings.Join(l, "\n")
}

// Finish writes the final result.  Must be called (usually deferred) by every harness.
func (r *Run) Finish() {
	r.mu.Lock()
	r.finished = true
	r.mu.Unlock()
	r.write(true)
	r.mu.Lock()
	defer r.mu.Unlock()
	for _, k := range r.violOrder {
		v := r.viol[k]
		if v.Known {
			r.T.Logf("KNOWN-FINDING key=%s count=%d %s", v.Key, v.Count, v.What)
		} else {
			r.T.Logf("VIOLATION key=%s count=%d %s replay=%s", v.Key, v.Count, v.What, v.Replay)
		}
	}
	r.T.Logf("verif %s/%s tier=%s seed=%d evaluations=%d distinct_nontrivial=%d shapes=%d wall=%.1fs",
		r.Property, r.Unit, r.Tier, r.Seed, r.evals, len(r.distinct), len(r.shapes), time.Since(r.start).Seconds())
}

func (r *Run) write(done bool) {
	r.mu.Lock()
	defer r.mu.Unlock()
	r.writeLocked(done)
}

func (r *Run) writeLocked(done bool) {
	res := Result{
		Property: r.Property, Unit: r.Unit, Tier: r.Tier, Seed: r.Seed,
		Evaluations: r.evals, Distinct: int64(len(r.distinct)), Rule: r.rule,
		Samples: r.samples, Counters: r.counters, NotJudged: r.notJudged,
		Shapes: int64(len(r.shapes)), Inconclusive: r.incon, Assumptions: r.assume,
		WallS: time.Since(r.start).Seconds(), Completed: done,
	}
	keys := append([]string(nil), r.violOrder...)
	sort.Strings(keys)
	for _, k := range keys {
		res.Violations = append(res.Violations, r.viol[k])
	}
	b, err := json.MarshalIndent(res, "", " ")
	if err != nil {
		// a sample or witness that cannot be marshalled must not hide the verdict
		res.Samples = []any{fmt.Sprintf("unmarshallable samples: %v", err)}
		for _, v := range res.Violations {
			v.Witness = fmt.Sprintf("%+v", v.Witness)
		}
		b, _ = json.MarshalIndent(res, "", " ")
	}
	tmp := r.OutPath + ".tmp"
	if err := os.WriteFile(tmp, b, 0o644); err == nil {
		_ = os.Rename(tmp, r.OutPath)
	}
}

// MkTmp creates a scratch directory under VERIF_TMP; the caller removes it.
func (r *Run) MkTmp(prefix string) string {
	_ = os.MkdirAll(r.TmpDir, 0o755)
	d, err := os.MkdirTemp(r.TmpDir, prefix)
	if err != nil {
		r.T.Fatalf("verifkit: mkdtemp: %v", err)
	}
	return d
}

// Worker is a goroutine-local accumulator for hot loops; merge with Run.Merge.
type Worker struct {
	R        *Run
	Rnd      *rand.Rand
	Index    int
	evals    int64
	distinct map[uint64]struct{}
	counts   map[string]int64
}

// Count is the goroutine-local form of Run.Count (merged when Parallel returns).
func (w *Worker) Count(name string, d int64) {
	if w.counts == nil {
		w.counts = map[string]int64{}
	}
	w.counts[name] += d
}

// Parallel runs f on n workers, each with its own deterministic stream, and merges
// their case accounting.
func (r *Run) Parallel(n int, name string, f func(w *Worker)) {
	var wg sync.WaitGroup
	ws := make([]*Worker, n)
	for i := 0; i < n; i++ {
		ws[i] = &Worker{R: r, Rnd: r.Rand(fmt.Sprintf("%s/%d", name, i)), Index: i, distinct: map[uint64]struct{}{}}
		wg.Add(1)
		go func(w *Worker) {
			defer wg.Done()
			defer func() {
				if p := recover(); p != nil {
					r.Violation(r.Property+"/harness-panic/"+name, fmt.Sprintf("panic in worker: %v", p),
						map[string]any{"stack": firstLines(string(debug.Stack()), 40)})
				}
			}()
			f(w)
		}(ws[i])
	}
	wg.Wait()
	r.mu.Lock()
	for _, w := range ws {
		r.evals += w.evals
		for h := range w.distinct {
			r.distinct[h] = struct{}{}
		}
		for k, v := range w.counts {
			r.counters[k] += v
		}
	}
	r.mu.Unlock()
}

func (w *Worker) Case(nontrivial bool, abstraction string) {
	w.evals++
	if nontrivial {
		w.distinct[hash64(abstraction)] = struct{}{}
	}
}

func (w *Worker) CaseHash(nontrivial bool, h uint64) {
	w.evals++
	if nontrivial {
		w.distinct[h] = struct{}{}
	}
}

// Hash exposes the kit's hash for harnesses that build abstractions incrementally.
func Hash(parts ...string) uint64 { return hash64(parts...) }
