//go:build verif

package sharding

import (
	"fmt"
	"math/big"
	"math/rand/v2"
	"strconv"
	"testing"

	"github.com/VKCOM/statshouse/internal/data_model"
	"github.com/VKCOM/statshouse/internal/format"
	"github.com/VKCOM/statshouse/internal/zzverif/verifkit"
)

var c10Strategies = []string{format.ShardByTagsHash, format.ShardFixed, format.ShardByMetricID, format.ShardBuiltinDist, "garbage", "Fixed_Shard"}

func c10GenMeta(rnd *rand.Rand) *format.MetricMetaValue {
	meta := &format.MetricMetaValue{ShardStrategy: c10Strategies[rnd.IntN(len(c10Strategies))]}
	switch rnd.IntN(6) {
	case 0:
		meta.MetricID = -int32(rnd.IntN(2000)) - 1 // built-in range
	case 1:
		meta.MetricID = int32(rnd.Uint32()) // anything, also negative
	case 2:
		meta.MetricID = []int32{0, 1, -1, 2147483647, -2147483648}[rnd.IntN(5)]
	default:
		meta.MetricID = int32(rnd.IntN(1 << 20))
	}
	if rnd.IntN(3) == 0 {
		meta.ShardFixedKey = uint32(rnd.IntN(70))
	}
	if meta.ShardStrategy == format.ShardFixed || rnd.IntN(8) == 0 {
		meta.ShardNum = uint32(rnd.IntN(70))
	}
	if rnd.IntN(4) == 0 {
		meta.ShardFixedKey2 = uint32(rnd.IntN(70))
		meta.ShardFixedKey2Timestamp = rnd.Uint32()
	}
	return meta
}

func c10GenKey(rnd *rand.Rand, metric int32) data_model.Key {
	var k data_model.Key
	k.Metric = metric
	for j, n := 0, rnd.IntN(6); j < n; j++ {
		k.Tags[rnd.IntN(format.MaxTags)] = int32(rnd.Uint32())
	}
	for j, n := 0, rnd.IntN(3); j < n; j++ {
		k.STags[rnd.IntN(format.MaxTags)] = "s" + strconv.Itoa(rnd.IntN(1000))
	}
	k.Timestamp = rnd.Uint32()
	return k
}

// TestVerifC10 (unit "sharding"): the agent-side shard function against the statement:
// independent of the event timestamp (and of the scratch buffer), inside the shard count for
// the strategies that compute a shard, equal to the API-side shard for fixed / by-metric-id.
func TestVerifC10(t *testing.T) {
	r := verifkit.Start(t, "C10", "sharding")
	defer r.Finish()
	r.SetRule("random metric metas (every strategy incl. unknown ones, fixed keys 0..69, shard_num 0..69, metric ids over the whole int32 range) x random keys (0..5 int tags, 0..2 string tags) x shard counts 1..64, each key hashed with two timestamps and three scratch buffers. Non-trivial = sharding.Shard answered ok; distinct = (meta fields, key, count).")
	n := r.N(120000, 8000000)
	workers := 8
	two32 := new(big.Int).Lsh(big.NewInt(1), 32)
	r.Parallel(workers, "shard", func(w *verifkit.Worker) {
		rnd := w.Rnd
		var scratch []byte
		for i := 0; i < n/workers; i++ {
			cnt := uint32(1 + rnd.IntN(64))
			if rnd.IntN(10) == 0 {
				cnt = []uint32{1, 2, 3, 16, 18, 64}[rnd.IntN(6)]
			}
			meta := c10GenMeta(rnd)
			k := c10GenKey(rnd, meta.MetricID)
			wit := func() map[string]any {
				return map[string]any{"strategy": meta.ShardStrategy, "metric_id": meta.MetricID, "shard": meta.ShardFixedKey, "shard_num": meta.ShardNum,
					"count": cnt, "key": fmt.Sprintf("%+v", k)}
			}
			s1, ok1 := Shard(&k, meta, cnt, &scratch)
			k2 := k
			k2.Timestamp = rnd.Uint32()
			if rnd.IntN(4) == 0 {
				k2.Timestamp = k.Timestamp + 1
			}
			s2, ok2 := Shard(&k2, meta, cnt, &scratch)
			if s1 != s2 || ok1 != ok2 {
				r.Violation("C10/shard/depends-on-timestamp", fmt.Sprintf("shard %d,%v at timestamp %d but %d,%v at %d", s1, ok1, k.Timestamp, s2, ok2, k2.Timestamp), wit())
			}
			s3, ok3 := Shard(&k, meta, cnt, nil)
			dirty := []byte("some previous content of the scratch buffer, longer than a marshalled key header")
			s4, ok4 := Shard(&k, meta, cnt, &dirty)
			if s3 != s1 || ok3 != ok1 || s4 != s1 || ok4 != ok1 {
				r.Violation("C10/shard/depends-on-scratch", fmt.Sprintf("shard %d,%v / %d,%v / %d,%v for the same key with different scratch buffers", s1, ok1, s3, ok3, s4, ok4), wit())
			}
			fixedOrByID := meta.ShardFixedKey > 0 || meta.ShardStrategy == format.ShardFixed || meta.ShardStrategy == format.ShardByMetricID
			computes := meta.ShardFixedKey == 0 && (meta.ShardStrategy == format.ShardByMetricID || meta.ShardStrategy == format.ShardByTagsHash)
			if ok1 {
				if computes && s1 >= cnt {
					r.Violation("C10/shard/out-of-range/"+meta.ShardStrategy, fmt.Sprintf("shard %d with %d shards", s1, cnt), wit())
				}
				if fixedOrByID {
					if !meta.Sharded() {
						r.Violation("C10/shard/api-not-sharded", "agent shards the metric by fixed key / fixed shard / metric id but MetricMetaValue.Sharded() is false", wit())
					}
					if api := meta.Shard(int(cnt)); api != int(s1) {
						r.Violation("C10/shard/api-differs", fmt.Sprintf("agent shard %d, API shard %d", s1, api), wit())
					}
				} else if meta.Sharded() {
					r.Violation("C10/shard/api-sharded-but-agent-hashes", "MetricMetaValue.Sharded() is true for a metric the agent spreads by tag hash", wit())
				}
				if meta.ShardFixedKey == 0 && meta.ShardStrategy == format.ShardByTagsHash {
					// the documented fixed-point rule: trunc(high32(hash)/2^32 * count)
					_, h := k.XXHash(nil)
					want := new(big.Int).Mul(new(big.Int).SetUint64(h>>32), big.NewInt(int64(cnt)))
					want.Div(want, two32)
					if want.Uint64() != uint64(s1) {
						r.Violation("C10/shard/hash-rule", fmt.Sprintf("shard %d, fixed-point rule over the key hash gives %s", s1, want), wit())
					}
					w.Count("strategy.tags_hash", 1)
				}
			} else {
				w.Count("not_ok", 1)
				if fixedOrByID {
					r.Violation("C10/shard/fixed-not-ok", "sharding.Shard refuses a metric with fixed / by-metric-id sharding", wit())
				}
			}
			if w.Index == 0 && i < 3 {
				r.Sample(map[string]any{"meta": wit(), "shard": s1, "ok": ok1})
			}
			w.Case(ok1, fmt.Sprintf("%s|%d|%d|%d|%d|%v|%v", meta.ShardStrategy, meta.MetricID, meta.ShardFixedKey, meta.ShardNum, cnt, k.Tags, k.STags))
		}
	})
}
