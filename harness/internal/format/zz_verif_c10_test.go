//go:build verif

package format

import (
	"fmt"
	"math/rand/v2"
	"sort"
	"testing"

	"github.com/VKCOM/statshouse/internal/zzverif/verifkit"
)

// reference for the API-side shard written from the statement / field comments:
// "shard" (1-based) wins; "fixed_shard" => shard_num (0-based); "" => metric_id mod count
// (metric id taken as unsigned 32 bit); everything else is not sharded (-1).
func c10RefShard(m *MetricMetaValue, count int) (int, bool) {
	if m.ShardFixedKey > 0 {
		return int(m.ShardFixedKey) - 1, true
	}
	switch m.ShardStrategy {
	case "fixed_shard":
		return int(m.ShardNum), true
	case "":
		return int(uint64(uint32(m.MetricID)) % uint64(count)), true
	}
	return -1, false
}

// TestVerifC10 (unit "format"): API-side shard choice MetricMetaValue.Shard/Sharded against the
// reference, stable through the JSON form in which metas travel from metadata to agents and API,
// and inside the shard count for every built-in metric.
func TestVerifC10(t *testing.T) {
	r := verifkit.Start(t, "C10", "format")
	defer r.Finish()
	r.SetRule("random metas (strategies tags_hash/fixed_shard/\"\"/builtin/unknown, shard 0..69, shard_num 0..69, metric ids over int32) x counts 1..64, each also after a JSON round trip; plus every built-in metric x counts 1..64. Non-trivial = the meta is sharded; distinct = (strategy, id, shard, shard_num, count).")
	n := r.N(100000, 5000000)
	workers := 8
	strategies := []string{ShardByTagsHash, ShardFixed, ShardByMetricID, ShardBuiltinDist, "garbage", "FIXED_SHARD"}
	r.Parallel(workers, "meta", func(w *verifkit.Worker) {
		rnd := w.Rnd
		for i := 0; i < n/workers; i++ {
			m := &MetricMetaValue{Name: "m", ShardStrategy: strategies[rnd.IntN(len(strategies))]}
			switch rnd.IntN(4) {
			case 0:
				m.MetricID = int32(rnd.Uint32())
			case 1:
				m.MetricID = []int32{0, 1, -1, 2147483647, -2147483648}[rnd.IntN(5)]
			default:
				m.MetricID = int32(rnd.IntN(1 << 20))
			}
			if rnd.IntN(3) == 0 {
				m.ShardFixedKey = uint32(rnd.IntN(70))
			}
			if m.ShardStrategy == ShardFixed || rnd.IntN(8) == 0 {
				m.ShardNum = uint32(rnd.IntN(70))
			}
			cnt := 1 + rnd.IntN(64)
			wit := func() map[string]any {
				return map[string]any{"strategy": m.ShardStrategy, "metric_id": m.MetricID, "shard": m.ShardFixedKey, "shard_num": m.ShardNum, "count": cnt}
			}
			want, sharded := c10RefShard(m, cnt)
			if got := m.Sharded(); got != sharded {
				r.Violation("C10/api/sharded", fmt.Sprintf("Sharded()=%v, reference %v", got, sharded), wit())
			}
			got := m.Shard(cnt)
			if got != want {
				r.Violation("C10/api/shard", fmt.Sprintf("Shard(%d)=%d, reference %d", cnt, got, want), wit())
			}
			if sharded && m.ShardFixedKey == 0 && m.ShardStrategy == ShardByMetricID && (got < 0 || got >= cnt) {
				r.Violation("C10/api/out-of-range", fmt.Sprintf("Shard(%d)=%d", cnt, got), wit())
			}
			if got2 := m.Shard(cnt); got2 != got {
				r.Violation("C10/api/not-deterministic", fmt.Sprintf("Shard(%d) gave %d then %d", cnt, got, got2), wit())
			}
			// the JSON form is what the journal distributes to agents and to the API
			js, err := m.MarshalBinary()
			if err != nil {
				r.Violation("C10/api/json-marshal", err.Error(), wit())
			} else {
				var m2 MetricMetaValue
				if err := m2.UnmarshalBinary(js); err != nil {
					r.Violation("C10/api/json-unmarshal", err.Error(), map[string]any{"meta": wit(), "json": string(js)})
				} else {
					m2.MetricID = m.MetricID // the id travels outside the JSON body
					if m2.Shard(cnt) != got || m2.Sharded() != sharded {
						r.Violation("C10/api/json-roundtrip", fmt.Sprintf("shard %d/%v before, %d/%v after the JSON round trip", got, sharded, m2.Shard(cnt), m2.Sharded()), map[string]any{"meta": wit(), "json": string(js)})
					}
				}
			}
			if w.Index == 0 && i < 3 {
				r.Sample(map[string]any{"meta": wit(), "api_shard": got, "sharded": sharded})
			}
			w.Case(sharded, fmt.Sprintf("%s|%d|%d|%d|%d", m.ShardStrategy, m.MetricID, m.ShardFixedKey, m.ShardNum, cnt))
		}
	})
	// every built-in metric
	ids := make([]int, 0, len(BuiltinMetrics))
	for id := range BuiltinMetrics {
		ids = append(ids, int(id))
	}
	sort.Ints(ids)
	for _, id := range ids {
		m := BuiltinMetrics[int32(id)]
		for cnt := 1; cnt <= 64; cnt++ {
			want, sharded := c10RefShard(m, cnt)
			got := m.Shard(cnt)
			if m.Sharded() != sharded || got != want {
				r.Violation("C10/api/builtin", fmt.Sprintf("built-in %s: Shard(%d)=%d Sharded=%v, reference %d/%v", m.Name, cnt, got, m.Sharded(), want, sharded), nil)
			}
			if sharded && m.ShardFixedKey == 0 && m.ShardStrategy != ShardFixed && (got < 0 || got >= cnt) {
				r.Violation("C10/api/builtin-out-of-range", fmt.Sprintf("built-in %s: Shard(%d)=%d", m.Name, cnt, got), nil)
			}
			r.Case(sharded, fmt.Sprintf("builtin|%d|%d", id, cnt))
		}
		r.Count("builtin_metrics", 1)
	}
	var _ = rand.IntN
}
