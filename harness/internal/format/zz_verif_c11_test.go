//go:build verif

package format

import (
	"fmt"
	"math/big"
	"math/rand/v2"
	"strconv"
	"strings"
	"testing"
	"unicode"
	"unicode/utf8"

	"github.com/VKCOM/statshouse/internal/zzverif/verifkit"
)

// reference validator written from the documented rules (not from validStringValue):
// UTF-8, at most 128 bytes, trimmed, whitespace only as single ASCII spaces, printable.
func c11RefValid(b []byte) bool {
	if len(b) > 128 || !utf8.Valid(b) {
		return false
	}
	s := string(b)
	prevSpace := true
	for _, r := range s {
		if r == ' ' {
			if prevSpace {
				return false
			}
			prevSpace = true
			continue
		}
		if unicode.IsSpace(r) || !unicode.IsPrint(r) {
			return false
		}
		prevSpace = false
	}
	return len(s) == 0 || !prevSpace
}

var c11Alphabet = []string{" ", "  ", "\t", "\n", "\r\n", "a", "Z", "0", "~", "\u00a0", "\u2003", "\u2028", "\u200b", "\ufeff",
	"\u0000", "\u007f", "\u0080", "\u044f", "\u65e5\u672c", "\U0001F600", "\U000E0001", "\xff", "\xc3", "\xe2\x82", "\xed\xa0\x80", "\xc0\xaf",
	"\xf4\x90\x80\x80", "\u0085", "\u3000", "\u0301", "\ufffd", "\u1680", "\u180e", "\u00ad"}

func c11GenBytes(rnd *rand.Rand) []byte {
	var in []byte
	n := rnd.IntN(12)
	switch rnd.IntN(10) {
	case 0:
		n = 100 + rnd.IntN(60)
	case 1:
		// around the 128-byte cut with a multi-byte rune straddling it
		pre := 120 + rnd.IntN(9)
		for len(in) < pre {
			in = append(in, byte('a'+rnd.IntN(26)))
		}
		in = append(in, c11Alphabet[rnd.IntN(len(c11Alphabet))]...)
		n = rnd.IntN(6)
	case 3:
		// long inputs (well beyond twice the limit): long runs of whitespace / collapsible
		// characters before and between the visible ones, and a rune straddling bytes 128, 256, 512
		target := []int{129, 250, 256, 257, 300, 511, 513, 700, 1500}[rnd.IntN(9)]
		for len(in) < target {
			switch rnd.IntN(6) {
			case 0, 1:
				k := 1 + rnd.IntN(200)
				for j := 0; j < k; j++ {
					in = append(in, []string{" ", "\t", "\u00a0", "\u2003", "\n"}[rnd.IntN(5)]...)
				}
			case 2:
				in = append(in, c11Alphabet[rnd.IntN(len(c11Alphabet))]...)
			default:
				in = append(in, byte('a'+rnd.IntN(26)))
			}
		}
		in = append(in, c11Alphabet[rnd.IntN(len(c11Alphabet))]...)
		return in
	case 2:
		// all kinds of spaces only
		n = rnd.IntN(140)
		for j := 0; j < n; j++ {
			in = append(in, []string{" ", "\t", "\u00a0", "\u2003", "\n"}[rnd.IntN(5)]...)
		}
		return in
	}
	for j := 0; j < n; j++ {
		switch rnd.IntN(8) {
		case 0:
			in = append(in, byte(rnd.IntN(256)))
		case 1:
			in = utf8.AppendRune(in, rune(rnd.IntN(0x11000)))
		default:
			in = append(in, c11Alphabet[rnd.IntN(len(c11Alphabet))]...)
		}
	}
	return in
}

func TestVerifC11(t *testing.T) {
	r := verifkit.Start(t, "C11", "format")
	defer r.Finish()
	r.SetRule("random byte strings over an alphabet of ASCII, every Unicode space/format/control class, invalid and truncated UTF-8, strings around the 128-byte cut; decimal strings around ±2^31, 2^32, ±2^63, 2^64 with signs, leading zeros and trailing junk. Non-trivial = the input is not a plain already-valid ASCII string (string part) / parses as an integer or sits at a boundary (raw part); distinct = distinct input bytes.")
	nStr := r.N(200000, 20000000)
	nRaw := r.N(200000, 10000000)
	workers := 8

	r.Parallel(workers, "strings", func(w *verifkit.Worker) {
		rnd := w.Rnd
		for i := 0; i < nStr/workers; i++ {
			in := c11GenBytes(rnd)
			q := strconv.Quote(string(in))
			bad := func(key, extra string) {
				r.Violation("C11/"+key, key+" "+extra, map[string]any{"input_quoted": q, "input_hex": fmt.Sprintf("%x", in), "detail": extra})
			}
			if w.Index == 0 && i < 4 {
				r.Sample(map[string]any{"input_quoted": q, "forced": strconv.Quote(ForceValidStringValue(string(in)))})
			}
			refValidIn := c11RefValid(in)
			forced := ForceValidStringValue(string(in))
			if !c11RefValid([]byte(forced)) {
				bad("forced-not-valid", strconv.Quote(forced))
			}
			if ValidStringValue(string(in)) != refValidIn || ValidStringValueBytes(in) != refValidIn {
				bad("valid-predicate-disagrees-with-rules", fmt.Sprintf("ref=%v", refValidIn))
			}
			if refValidIn && forced != string(in) {
				bad("valid-input-changed", strconv.Quote(forced))
			}
			if f2 := ForceValidStringValue(forced); f2 != forced {
				bad("not-idempotent", strconv.Quote(forced)+" -> "+strconv.Quote(f2))
			}
			fb := ForceValidStringValueBytes(append([]byte(nil), in...))
			if string(fb) != forced {
				bad("bytes-variant-differs", strconv.Quote(string(fb))+" vs "+strconv.Quote(forced))
			}
			prefix := []byte("pfx")
			strict, err := AppendValidStringValue(append([]byte(nil), prefix...), in)
			if err != nil && utf8.Valid(in) {
				bad("strict-fails-on-valid-utf8", err.Error())
			}
			if err == nil {
				if !strings.HasPrefix(string(strict), "pfx") {
					bad("strict-clobbered-dst", strconv.Quote(string(strict)))
				} else if string(strict[3:]) != forced {
					bad("strict-differs-from-forced", strconv.Quote(string(strict[3:]))+" vs "+strconv.Quote(forced))
				}
			} else {
				w.Count("strict_errors", 1)
			}
			w.Case(!(refValidIn && len(in) == len(forced) && isASCII(in)), string(in))
		}
	})

	lim32lo, lim32hi := big.NewInt(-1<<31), big.NewInt(1<<32-1)
	lim64lo := new(big.Int).Lsh(big.NewInt(-1), 63)
	lim64hi := new(big.Int).Sub(new(big.Int).Lsh(big.NewInt(1), 64), big.NewInt(1))
	bases := []string{"0", "1", "9", "2147483646", "2147483647", "2147483648", "2147483649", "4294967294", "4294967295", "4294967296", "4294967297",
		"9223372036854775806", "9223372036854775807", "9223372036854775808", "9223372036854775809", "18446744073709551614", "18446744073709551615",
		"18446744073709551616", "18446744073709551617", "99999999999999999999999", "340282366920938463463374607431768211456"}
	decimalRe := func(s string) bool { // -?[0-9]+
		if strings.HasPrefix(s, "-") {
			s = s[1:]
		}
		if s == "" {
			return false
		}
		for _, c := range []byte(s) {
			if c < '0' || c > '9' {
				return false
			}
		}
		return true
	}
	r.Parallel(workers, "raw", func(w *verifkit.Worker) {
		rnd := w.Rnd
		for i := 0; i < nRaw/workers; i++ {
			s := bases[rnd.IntN(len(bases))]
			switch rnd.IntN(10) {
			case 0:
				s = "-" + s
			case 1:
				s = strings.Repeat("0", 1+rnd.IntN(3)) + s
			case 2:
				s = "-0" + s
			case 3:
				s = strconv.FormatInt(rnd.Int64()-rnd.Int64(), 10)
			case 4:
				s = s + string(rune(' '+rnd.IntN(90)))
			case 5:
				s = strconv.FormatUint(rnd.Uint64(), 10)
			case 6:
				s = strconv.FormatInt(int64(int32(rnd.Uint32())), 10)
			case 7:
				s = []string{"", "-", " 1", "1 ", "0x10", "1e3", "1_000", "--1", "-+1", "\u0661\u0662\u0663", "1.0", "-0", "00", "-00"}[rnd.IntN(14)]
			case 8:
				s = "+" + s
			}
			bad := func(key, extra string) {
				r.Violation("C11/"+key, key+" "+extra, map[string]any{"input": s, "detail": extra})
			}
			if w.Index == 0 && i < 3 {
				v, ok := ContainsRawTagValueBytes([]byte(s))
				r.Sample(map[string]any{"raw_input": s, "raw32": v, "ok32": ok})
			}
			if strings.HasPrefix(s, "+") {
				// statement is silent on a leading '+' (raw32 accepts it, raw64 rejects it): recorded, not judged
				r.NotJudged("leading_plus", 1)
				continue
			}
			isDec := decimalRe(s)
			var ref *big.Int
			if isDec {
				ref, _ = new(big.Int).SetString(s, 10)
			}
			v32, ok32 := ContainsRawTagValueBytes([]byte(s))
			want32 := isDec && ref.Cmp(lim32lo) >= 0 && ref.Cmp(lim32hi) <= 0
			if ok32 != want32 {
				bad("raw32-accept", fmt.Sprintf("got ok=%v want %v", ok32, want32))
			} else if ok32 {
				// int32 pattern decodes back: negative numbers as int32, numbers >= 2^31 as uint32
				back := int64(v32)
				if ref.Sign() >= 0 {
					back = int64(uint32(v32))
				}
				if back != ref.Int64() {
					bad("raw32-roundtrip", fmt.Sprintf("pattern %d decodes to %d", v32, back))
				}
			}
			lo, hi, ok64 := ContainsRawTagValue64Bytes([]byte(s))
			want64 := isDec && ref.Cmp(lim64lo) >= 0 && ref.Cmp(lim64hi) <= 0
			if ok64 != want64 {
				bad("raw64-accept", fmt.Sprintf("got ok=%v want %v", ok64, want64))
			} else if ok64 {
				u := uint64(uint32(lo)) | uint64(uint32(hi))<<32
				var got *big.Int
				if ref.Sign() < 0 {
					got = big.NewInt(int64(u))
				} else {
					got = new(big.Int).SetUint64(u)
				}
				if got.Cmp(ref) != 0 {
					bad("raw64-roundtrip", fmt.Sprintf("lo=%d hi=%d decodes to %s", lo, hi, got))
				}
			}
			if ok32 {
				w.Count("raw32_accepted", 1)
			}
			if ok64 {
				w.Count("raw64_accepted", 1)
			}
			w.Case(isDec, s)
		}
	})
}

func isASCII(b []byte) bool {
	for _, c := range b {
		if c >= 0x80 {
			return false
		}
	}
	return true
}
