//go:build verif

package promql

import (
	"math/rand/v2"
)

// ---- generators of expression trees -------------------------------------------------

var c27Digests = []string{"count", "countsec", "sum", "sumsec", "avg", "min", "max"}
var c27AllAggs = []string{"sum", "min", "max", "avg", "count", "group", "stddev", "stdvar", "quantile", "topk", "bottomk"}
var c27ReducibleAggs = []string{"sum", "min", "max", "avg", "count"}
var c27ReducibleFns = []string{"avg_over_time", "min_over_time", "max_over_time", "sum_over_time", "count_over_time", "stddev_over_time", "stdvar_over_time"}
var c27AllFns = []string{"avg_over_time", "min_over_time", "max_over_time", "sum_over_time", "count_over_time", "stddev_over_time", "stdvar_over_time",
	"last_over_time", "quantile_over_time", "present_over_time"}

// pairs (over-time function, aggregation) that reduceWhat accepts for rules #2 and #3
var c27CompatAgg = map[string]string{"avg_over_time": "avg", "min_over_time": "min", "max_over_time": "max", "sum_over_time": "sum", "count_over_time": "count"}

type c27Gen struct {
	rnd  *rand.Rand
	step int64
	big  bool // data set of large values with a small spread
}

func (g *c27Gen) pick(ss []string) string { return ss[g.rnd.IntN(len(ss))] }

func (g *c27Gen) sel(allowBy bool) *c27Sel {
	s := &c27Sel{metric: "m"}
	switch g.rnd.IntN(10) {
	case 0:
		s.metric = "c" // counter: default digest count
	case 1:
		// value metric, default digest avg
	default:
		s.what = g.pick(c27Digests)
	}
	if s.metric == "c" && g.rnd.IntN(2) == 0 {
		s.what = g.pick([]string{"count", "countsec"})
	}
	if allowBy && g.rnd.IntN(3) == 0 {
		s.byGiven = true
		s.by = [][]string{{"k"}, {"j"}, {"k", "j"}, {"k", "j", "h"}, {"h"}, {}}[g.rnd.IntN(6)]
	}
	switch g.rnd.IntN(8) {
	case 0:
		s.matchers = append(s.matchers, c27Matcher{"k", "=", "v1"})
	case 1:
		s.matchers = append(s.matchers, c27Matcher{"k", "!=", "v1"})
	case 2:
		s.matchers = append(s.matchers, c27Matcher{"j", "=~", "v[12]"})
	case 3:
		s.matchers = append(s.matchers, c27Matcher{"h", "!~", "v1"}, c27Matcher{"k", "=~", "v.*"})
	}
	return s
}

func (g *c27Gen) grouping(a *c27AggNode) {
	switch g.rnd.IntN(9) {
	case 7:
		a.grouped, a.group = true, []string{"1"} // tag id instead of tag name
	case 8:
		a.grouped, a.without, a.group = true, true, []string{"2", "h"}
	case 0, 1:
		// none
	case 2:
		a.grouped, a.group = true, []string{"k"}
	case 3:
		a.grouped, a.group = true, []string{"k", "j"}
	case 4:
		a.grouped, a.without, a.group = true, true, []string{"k"}
	case 5:
		a.grouped, a.without, a.group = true, true, []string{"j", "h"}
	case 6:
		a.grouped, a.group = true, []string{}
	}
}

func (g *c27Gen) agg(op string, inner c27Node) *c27AggNode {
	a := &c27AggNode{op: op, inner: inner}
	switch op {
	case "quantile":
		a.param = []float64{0, 0.1, 0.25, 0.5, 0.75, 0.9, 1, 0.3333, -0.5, 1.5}[g.rnd.IntN(10)]
	case "topk", "bottomk":
		a.param = float64(1 + g.rnd.IntN(3))
	}
	g.grouping(a)
	return a
}

func (g *c27Gen) wrap(inner c27Node) c27Node {
	return &c27Wrap{kind: g.pick([]string{"sub0", "sub0", "mul1", "abs", "neg"}), inner: inner}
}

func (g *c27Gen) overTime(fn string, w int64, inner c27Node, subquery bool) *c27OverTime {
	o := &c27OverTime{fn: fn, rng: w * g.step, inner: inner, subquery: subquery}
	if fn == "quantile_over_time" {
		o.phi = []float64{0, 0.25, 0.5, 0.9, 1, 0.3333}[g.rnd.IntN(6)]
	}
	return o
}

type c27Case struct {
	kind  string // def/A1… or red/R0…
	wrapped bool // reductions: the reducible expression sits under another operator
	big     bool // large values with a small spread (time()): tight tolerance
	inf     bool // infinities as values
	node  c27Node
	rule  int    // reductions: expected rule
	op    string // reductions: key part
	sel   *c27Sel
	outer *c27AggNode // definitions: outermost aggregation (nil if none)
	ot    *c27OverTime
}

// definition cases: shapes on which no reduction rule can fire
var c27DiffAggs = []string{"stddev", "stdvar", "stddev", "stdvar", "avg", "quantile", "sum", "min", "max"}
var c27DiffFns = []string{"stddev_over_time", "stdvar_over_time", "stddev_over_time", "stdvar_over_time", "avg_over_time", "quantile_over_time", "sum_over_time", "min_over_time", "max_over_time", "last_over_time"}

// timeCase: operators over time() — values ~1.79e9 that differ by one grid step
func (g *c27Gen) timeCase() c27Case {
	var base c27Node = &c27TimeNode{}
	if g.rnd.IntN(3) == 0 {
		base = &c27Wrap{kind: g.pick([]string{"subbig", "sub0", "neg", "abs"}), inner: base}
	}
	fn := g.pick(c27DiffFns)
	o := g.overTime(fn, int64(2+g.rnd.IntN(6)), base, true)
	if g.rnd.IntN(4) == 0 {
		a := g.agg(g.pick(c27DiffAggs), o)
		return c27Case{kind: "def/time-overtime-under-aggregation", node: a, outer: a, ot: o, big: true}
	}
	return c27Case{kind: "def/time-overtime", node: o, ot: o, big: true}
}

// bigCase: the operators whose definition involves differences of values, on a data set whose
// values are 1e9..4e12 (either sign) with a spread of a few units
func (g *c27Gen) bigCase() c27Case {
	pickSel := func(allowBy bool) *c27Sel {
		s := g.sel(allowBy)
		if s.metric == "c" {
			s.metric, s.what = "m", ""
		}
		if g.rnd.IntN(3) != 0 {
			s.what = g.pick([]string{"avg", "min", "max", "sum", "sumsec"}) // large-valued digests
		}
		return s
	}
	switch g.rnd.IntN(8) {
	case 0:
		s := pickSel(false)
		a := g.agg(g.pick(c27DiffAggs), g.wrap(s))
		return c27Case{kind: "def/big/agg-over-expression", node: a, outer: a, sel: s, big: true}
	case 1:
		s := pickSel(false)
		a := g.agg(g.pick([]string{"stddev", "stdvar", "quantile"}), s)
		return c27Case{kind: "def/big/agg-not-reducible", node: a, outer: a, sel: s, big: true}
	case 2:
		s := pickSel(true)
		s.byGiven = true
		if s.by == nil {
			s.by = []string{"k", "j"}
		}
		a := g.agg(g.pick(c27DiffAggs), s)
		return c27Case{kind: "def/big/agg-over-grouped-selector", node: a, outer: a, sel: s, big: true}
	case 3, 4:
		s := pickSel(g.rnd.IntN(3) == 0)
		o := g.overTime(g.pick(c27DiffFns), int64(2+g.rnd.IntN(5)), s, false)
		return c27Case{kind: "def/big/overtime", node: o, sel: s, ot: o, big: true}
	case 5:
		s := pickSel(false)
		o := g.overTime(g.pick(c27DiffFns), int64(2+g.rnd.IntN(5)), g.wrap(s), true)
		return c27Case{kind: "def/big/overtime-subquery", node: o, sel: s, ot: o, big: true}
	case 6:
		s := pickSel(false)
		a := g.agg(g.pick([]string{"sum", "min", "max", "avg"}), g.wrap(s))
		o := g.overTime(g.pick(c27DiffFns), int64(2+g.rnd.IntN(4)), a, true)
		return c27Case{kind: "def/big/overtime-of-aggregation", node: o, sel: s, ot: o, big: true}
	default:
		s := pickSel(false)
		o := g.overTime(g.pick([]string{"stddev_over_time", "stdvar_over_time", "avg_over_time", "max_over_time"}), int64(2+g.rnd.IntN(4)), s, false)
		a := g.agg(g.pick(c27DiffAggs), o)
		return c27Case{kind: "def/big/agg-over-overtime", node: a, outer: a, sel: s, ot: o, big: true}
	}
}

// infCase: infinities as real values (a series divided by zero, overflow): groups / windows whose
// present points are all +Inf, all -Inf, mixed (sum, avg, stddev: NaN by IEEE), mixed with finite
// values and with missing points, for every aggregator and over-time function
func (g *c27Gen) infCase() c27Case {
	s := g.sel(g.rnd.IntN(4) == 0)
	if s.metric == "m" && g.rnd.IntN(2) == 0 {
		s.what = g.pick([]string{"avg", "min", "max", "sum"}) // signed values
	}
	inner := &c27Wrap{kind: g.pick(c27InfWraps), inner: s}
	// x * 1e308 leaves finite values near the overflow threshold: whether their sum overflows
	// before an opposite infinity is added depends on the order of the additions, so only the
	// order-free operators are asked there
	huge := inner.kind == "mulhuge"
	if g.rnd.IntN(2) == 0 {
		op := g.pick([]string{"sum", "min", "max", "avg", "count", "group", "stddev", "stdvar", "quantile", "min", "max"})
		if huge {
			op = g.pick([]string{"min", "max", "count", "group", "quantile"})
		}
		a := g.agg(op, inner)
		return c27Case{kind: "def/inf/agg", node: a, outer: a, sel: s, inf: true}
	}
	fn := g.pick(c27AllFns)
	if huge {
		fn = g.pick([]string{"min_over_time", "max_over_time", "count_over_time", "last_over_time", "quantile_over_time", "present_over_time"})
	}
	o := g.overTime(fn, int64(1+g.rnd.IntN(5)), inner, true)
	return c27Case{kind: "def/inf/overtime", node: o, sel: s, ot: o, inf: true}
}

func (g *c27Gen) defCase() c27Case {
	if g.rnd.IntN(12) == 0 {
		return g.timeCase()
	}
	if !g.big && g.rnd.IntN(7) == 0 {
		return g.infCase()
	}
	if g.big {
		return g.bigCase()
	}
	op := g.pick(c27AllAggs)
	switch g.rnd.IntN(9) {
	case 0, 1:
		s := g.sel(false)
		a := g.agg(op, g.wrap(s))
		return c27Case{kind: "def/agg-over-expression", node: a, outer: a, sel: s}
	case 2:
		s := g.sel(true)
		s.byGiven = true
		if s.by == nil {
			s.by = []string{"k", "j"}
		}
		a := g.agg(op, s)
		return c27Case{kind: "def/agg-over-grouped-selector", node: a, outer: a, sel: s}
	case 3:
		op = g.pick([]string{"group", "stddev", "stdvar", "quantile", "topk", "bottomk"})
		s := g.sel(false)
		a := g.agg(op, s)
		return c27Case{kind: "def/agg-not-reducible", node: a, outer: a, sel: s}
	case 4:
		// aggregation over an over-time function with a multi-point window (no reduction: range > step)
		fn := g.pick([]string{"avg_over_time", "min_over_time", "max_over_time", "sum_over_time", "stddev_over_time", "stdvar_over_time", "last_over_time"})
		s := g.sel(false)
		o := g.overTime(fn, int64(2+g.rnd.IntN(4)), s, false)
		if op == "topk" || op == "bottomk" {
			// the series weight is taken over the view widened by the range, where the first
			// windows are incomplete: the ranking input is not observable from outside
			op = "quantile"
		}
		a := g.agg(op, o)
		return c27Case{kind: "def/agg-over-overtime", node: a, outer: a, sel: s, ot: o}
	case 5, 6:
		fn := g.pick(c27AllFns)
		w := int64(2 + g.rnd.IntN(5))
		if fn == "last_over_time" || fn == "quantile_over_time" || fn == "present_over_time" {
			w = int64(1 + g.rnd.IntN(6))
		}
		s := g.sel(g.rnd.IntN(3) == 0)
		if g.rnd.IntN(12) == 0 {
			s.offset = 60 * int64(1+g.rnd.IntN(2))
		}
		o := g.overTime(fn, w, s, false)
		return c27Case{kind: "def/overtime", node: o, sel: s, ot: o}
	case 7:
		fn := g.pick(c27AllFns)
		s := g.sel(false)
		o := g.overTime(fn, int64(1+g.rnd.IntN(5)), g.wrap(s), true)
		return c27Case{kind: "def/overtime-subquery", node: o, sel: s, ot: o}
	default:
		fn := g.pick([]string{"avg_over_time", "min_over_time", "max_over_time", "sum_over_time", "count_over_time", "last_over_time", "quantile_over_time"})
		s := g.sel(false)
		// inner aggregations that are absent where no member is present (count/group/stddev/stdvar
		// yield 0 or 1 there — not judged — and would leak into the window); quantile is kept out
		// because of its own signature (NaN member)
		op = g.pick([]string{"sum", "min", "max", "avg"})
		a := g.agg(op, g.wrap(s))
		o := g.overTime(fn, int64(1+g.rnd.IntN(4)), a, true)
		return c27Case{kind: "def/overtime-of-aggregation", node: o, sel: s, ot: o}
	}
}

// reduction cases: shapes matched by the rules of reductions.go
func (g *c27Gen) redCase() c27Case {
	s := g.sel(false)
	maybeParen := func(n c27Node) c27Node {
		if g.rnd.IntN(6) == 0 {
			return &c27Wrap{kind: "paren", inner: n}
		}
		return n
	}
	c := g.redCore(s, maybeParen)
	if g.rnd.IntN(5) == 0 {
		// the reducible expression as an operand of something that matches no longer rule
		c.wrapped = true
		if g.rnd.IntN(3) == 0 {
			a := g.agg(g.pick([]string{"stddev", "stdvar", "group"}), c.node)
			c.node, c.outer = a, nil
		} else {
			c.node = g.wrap(c.node)
		}
	}
	return c
}

func (g *c27Gen) redCore(s *c27Sel, maybeParen func(c27Node) c27Node) c27Case {
	switch g.rnd.IntN(4) {
	case 0:
		op := g.pick(c27ReducibleAggs)
		a := g.agg(op, maybeParen(s))
		return c27Case{kind: "red/0", node: a, rule: 0, op: op, sel: s, outer: a}
	case 1:
		fn := g.pick(c27ReducibleFns)
		o := g.overTime(fn, 1, s, false)
		return c27Case{kind: "red/1", node: o, rule: 1, op: fn, sel: s, ot: o}
	case 2:
		fn := g.pick([]string{"avg_over_time", "min_over_time", "max_over_time", "sum_over_time", "count_over_time"})
		op := c27CompatAgg[fn]
		o := g.overTime(fn, 1, s, false)
		a := g.agg(op, maybeParen(o))
		return c27Case{kind: "red/2", node: a, rule: 2, op: op + "-of-" + fn, sel: s, outer: a, ot: o}
	default:
		fn := g.pick([]string{"avg_over_time", "min_over_time", "max_over_time", "sum_over_time", "count_over_time"})
		op := c27CompatAgg[fn]
		a := g.agg(op, maybeParen(s))
		o := g.overTime(fn, 1, a, true)
		return c27Case{kind: "red/3", node: o, rule: 3, op: fn + "-of-" + op, sel: s, ot: o}
	}
}
