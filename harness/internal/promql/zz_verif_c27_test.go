//go:build verif

package promql

import (
	"context"
	"fmt"
	"math"
	"sort"
	"strings"
	"sync/atomic"
	"testing"
	"time"

	"github.com/VKCOM/statshouse/internal/promql/parser"
	"github.com/VKCOM/statshouse/internal/zzverif/verifkit"
)

// ---------------------------------------------------------------------------------
// running the real engine
// ---------------------------------------------------------------------------------

type c27EngSeries struct {
	labels map[string]string
	vals   []float64
}

type c27EngResult struct {
	time    []int64
	series  map[string]*c27EngSeries // by label key (without __name__)
	order   []string
	dups    int
	reduced []string // printed forms of the expressions replaced by a reduction
	redType []string // node type of each
}

func c27RunEngine(st *c27Store, sp c27DataSpec, expr string, deReduce bool) (res c27EngResult, h *c27Handler, err error) {
	h = &c27Handler{st: st}
	ng := NewEngine(time.UTC, 0)
	ev, err := ng.NewEvaluator(context.Background(), h, Query{Start: sp.Start, End: sp.End, Step: sp.QStep, Expr: expr, Options: Options{TimeNow: sp.Now}})
	if err != nil {
		return res, h, err
	}
	for e := range ev.ars {
		res.reduced = append(res.reduced, e.String())
		res.redType = append(res.redType, fmt.Sprintf("%T", e))
	}
	if deReduce {
		// undo NewEvaluator's rewrite: restore the selector fields it changed, forget the replacement
		for _, e := range ev.ars {
			s := e.(*parser.VectorSelector)
			s.What, s.GroupBy, s.GroupWithout, s.Range, s.OmitNameTag = "", nil, false, 0, false
			s.GroupByAll = true
		}
		ev.ars = map[parser.Expr]parser.Expr{}
	}
	v, cancel, err := ev.Run()
	if err != nil {
		return res, h, err
	}
	defer cancel()
	ts, ok := v.(*TimeSeries)
	if !ok {
		return res, h, fmt.Errorf("result is %T", v)
	}
	res.time = append([]int64(nil), ts.Time...)
	res.series = map[string]*c27EngSeries{}
	for _, d := range ts.Series.Data {
		l := map[string]string{}
		for _, tg := range d.Tags.ID2Tag {
			if tg.ID == "__name__" || tg.SValue == "" {
				continue
			}
			l[tg.GetName()] = tg.SValue
		}
		k := c27LabelKey(l)
		if _, dup := res.series[k]; dup {
			res.dups++
			continue
		}
		res.series[k] = &c27EngSeries{labels: l, vals: append([]float64(nil), (*d.Values)...)}
		res.order = append(res.order, k)
	}
	sort.Strings(res.order)
	return res, h, nil
}

func c27Close(a, b float64) bool {
	if math.IsNaN(a) || math.IsNaN(b) {
		return math.IsNaN(a) && math.IsNaN(b)
	}
	if a == b {
		return true
	}
	if math.IsInf(a, 0) || math.IsInf(b, 0) {
		return false
	}
	return math.Abs(a-b) <= 1e-9*math.Max(1, math.Max(math.Abs(a), math.Abs(b)))
}

// c27CloseTol: |a-b| <= rel*max(1,|b|) + abs, b being the reference.
func c27CloseTol(a, b, rel, abs float64) bool {
	if math.IsNaN(a) || math.IsNaN(b) {
		return math.IsNaN(a) && math.IsNaN(b)
	}
	if a == b {
		return true
	}
	if math.IsInf(a, 0) || math.IsInf(b, 0) {
		return false
	}
	return math.Abs(a-b) <= rel*math.Max(1, math.Abs(b))+abs
}

// c27RelTol: 1e-9 on the ordinary data sets; on large-offset data (values 1e9..4e12 with a
// spread of a few units, time()) a tolerance relative to the value magnitude would hide every
// error of a difference-of-values operator, so it is 1e-13 there (a few hundred ulps: summation
// order of <= 18 inexact terms, quantile interpolation) and the variance family carries its own
// absolute tolerance computed by the reference from the inputs of each point.
func c27RelTol(c c27Case, sp c27DataSpec) float64 {
	if c.big || sp.Big != 0 {
		return 1e-13
	}
	return 1e-9
}

func c27Fmt(v float64) string {
	if math.IsNaN(v) {
		return "NaN"
	}
	return fmt.Sprintf("%.17g", v)
}

// ---------------------------------------------------------------------------------
// (a) definitions
// ---------------------------------------------------------------------------------

// c27WorstRatio: largest |engine-ref| / tolerance seen on large-offset cases (calibration margin);
// written by c27JudgeDef, read into the evidence.
var c27WorstRatioPermille atomic.Int64

// points of the infinity cases: [0] infinite result judged, [1] finite result judged,
// [2] NaN-by-definition judged, [3] scoped out (min/max_over_time over infinities of one sign)
var c27InfPoints [4]atomic.Int64

type c27Mismatch struct {
	class  string
	detail string
}

// c27JudgeDef compares the engine result with the reference on the timestamps >= from.
// Returns mismatches (at most a few), the number of judged and not judged points.
func c27JudgeDef(c c27Case, st *c27Store, sp c27DataSpec, eng c27EngResult) (mm []c27Mismatch, judged, notJudged int, nanMemberJudged int) {
	if len(eng.time) == 0 {
		return []c27Mismatch{{"empty-result", "engine returned no time axis"}}, 0, 0, 0
	}
	// extended grid: history for the windows
	var maxR int64
	var walk func(n c27Node)
	walk = func(n c27Node) {
		switch x := n.(type) {
		case *c27OverTime:
			if x.rng > maxR {
				maxR = x.rng
			}
			walk(x.inner)
		case *c27AggNode:
			walk(x.inner)
		case *c27Wrap:
			walk(x.inner)
		}
	}
	walk(c.node)
	g0 := eng.time[0] - 2*maxR - sp.Step
	var grid []int64
	for t := g0; t <= eng.time[len(eng.time)-1]; t += sp.Step {
		grid = append(grid, t)
	}
	off := int((eng.time[0] - g0) / sp.Step)
	ctx := &c27RefCtx{st: st, grid: grid, step: sp.Step, qstep: sp.QStep}
	ref := c.node.eval(ctx)
	from := sp.Start
	if eng.dups != 0 {
		mm = append(mm, c27Mismatch{"duplicate-series", fmt.Sprintf("%d series of the result share their label set with another one", eng.dups)})
	}

	if c.outer != nil && c.outer == c.node && (c.outer.op == "topk" || c.outer.op == "bottomk") {
		return c27JudgeTopK(c, ref, off, eng, from)
	}

	var nanMember func(key string, t int) bool
	if c.outer != nil && c.outer == c.node {
		// members of each output group, to tell "a member is missing at t" apart
		inner := c.outer.inner.eval(ctx)
		members := map[string][]int{}
		for i := range inner {
			k := c27LabelKey(c.outer.groupLabels(inner[i].labels))
			members[k] = append(members[k], i)
		}
		nanMember = func(key string, t int) bool {
			for _, m := range members[key] {
				if math.IsNaN(inner[m].vals[t]) {
					return true
				}
			}
			return false
		}
	}
	refKeys := map[string]bool{}
	for _, rs := range ref {
		key := c27LabelKey(rs.labels)
		refKeys[key] = true
		es := eng.series[key]
		anyJudged := false
		for i, t := range eng.time {
			if t < from {
				continue
			}
			want := rs.vals[off+i]
			if c27IsArithNaN(want) {
				// points are present and the definition yields NaN: judged, the engine must say NaN
				judged++
				c27InfPoints[2].Add(1)
				if es != nil && !math.IsNaN(es.vals[i]) && len(mm) < 3 {
					mm = append(mm, c27Mismatch{"value", fmt.Sprintf("series {%s} t=%d: engine %s, definition NaN (points are present, e.g. +Inf and -Inf under sum)", key, t, c27Fmt(es.vals[i]))})
				}
				continue
			}
			if c27IsScopedNaN(want) {
				c27InfPoints[3].Add(1)
				continue
			}
			if math.IsNaN(want) {
				notJudged++
				continue
			}
			if math.IsInf(want, 0) {
				c27InfPoints[0].Add(1)
			} else if c.inf {
				c27InfPoints[1].Add(1)
			}
			anyJudged = true
			judged++
			hasNaN := nanMember != nil && nanMember(key, off+i)
			if hasNaN {
				nanMemberJudged++
			}
			var got float64 = math.NaN()
			if es != nil {
				got = es.vals[i]
			}
			var absTol float64
			if rs.tol != nil {
				absTol = rs.tol[off+i]
			}
			if (c.big || sp.Big != 0) && !math.IsNaN(got) && !math.IsInf(got, 0) && !math.IsInf(want, 0) {
				ratio := int64(1000 * math.Abs(got-want) / (c27RelTol(c, sp)*math.Max(1, math.Abs(want)) + absTol))
				for {
					old := c27WorstRatioPermille.Load()
					if ratio <= old || c27WorstRatioPermille.CompareAndSwap(old, ratio) {
						break
					}
				}
			}
			if !c27CloseTol(got, want, c27RelTol(c, sp), absTol) {
				class := "value"
				if es == nil {
					// a series that is absent altogether: explained by missing members only if
					// every judged timestamp of it has one
					class = "nan-member"
					for i2, t2 := range eng.time {
						if t2 >= from && !math.IsNaN(rs.vals[off+i2]) && !(nanMember != nil && nanMember(key, off+i2)) {
							class = "missing-series"
							break
						}
					}
				} else if hasNaN {
					class = "nan-member"
				}
				if len(mm) < 3 {
					mm = append(mm, c27Mismatch{class, fmt.Sprintf("series {%s} t=%d: engine %s, definition %s", key, t, c27Fmt(got), c27Fmt(want))})
				}
				if es == nil {
					break
				}
			}
		}
		_ = anyJudged
	}
	for _, k := range eng.order {
		if !refKeys[k] {
			if len(mm) < 3 {
				mm = append(mm, c27Mismatch{"unexpected-series", fmt.Sprintf("engine returned series {%s} that the definition does not produce", k)})
			}
		}
	}
	return mm, judged, notJudged, nanMemberJudged
}

// c27JudgeTopK: whole series are selected per group; the selection must be the k heaviest
// (lightest) members by weight = sum(v^2*step) over the result's points, series returned
// unchanged.  Groups where all members never decrease use another documented weight (the last
// value) and groups with ties at the cut are not judged.
func c27JudgeTopK(c c27Case, members []c27RefSeries, off int, eng c27EngResult, from int64) (mm []c27Mismatch, judged, notJudged int, _ int) {
	a := c.outer
	k := int(a.param)
	type mem struct {
		key     string
		w       float64
		nodec   bool
		visible bool
		vals    []float64
	}
	groups := map[string][]mem{}
	for _, m := range members {
		v := m.vals[off : off+len(eng.time)]
		mb := mem{key: c27LabelKey(m.labels), nodec: true, vals: v}
		prev := math.Inf(-1)
		for _, x := range v {
			if math.IsNaN(x) {
				continue
			}
			mb.visible = true
			mb.w += x * x
			if x < prev {
				mb.nodec = false
			}
			prev = x
		}
		if !mb.visible {
			continue // removed by removeEmptySeries before ranking
		}
		gk := c27LabelKey(a.groupLabels(m.labels))
		groups[gk] = append(groups[gk], mb)
	}
	expectTotal := 0
	for gk, ms := range groups {
		allNodec := true
		for _, m := range ms {
			allNodec = allNodec && m.nodec
		}
		if allNodec {
			notJudged += len(ms)
			for _, m := range ms {
				delete(eng.series, m.key) // not part of the count check below
			}
			continue
		}
		sort.Slice(ms, func(i, j int) bool {
			if a.op == "topk" {
				return ms[i].w > ms[j].w
			}
			return ms[i].w < ms[j].w
		})
		n := min(k, len(ms))
		// a tie at the cut — also one that is a tie only up to the rounding of the weight sums
		// (equal series such as countsec 1/5 everywhere add up in a different order)
		if n < len(ms) && math.Abs(ms[n-1].w-ms[n].w) <= 1e-9*math.Max(math.Abs(ms[n-1].w), math.Abs(ms[n].w)) {
			notJudged += len(ms)
			for _, m := range ms {
				delete(eng.series, m.key)
			}
			continue
		}
		for i, m := range ms {
			judged++
			es, got := eng.series[m.key]
			want := i < n
			if got != want {
				if len(mm) < 3 {
					mm = append(mm, c27Mismatch{"selection", fmt.Sprintf("group {%s}: series {%s} weight %s rank %d of %d, k=%d: selected=%v", gk, m.key, c27Fmt(m.w), i+1, len(ms), k, got)})
				}
				continue
			}
			if got {
				expectTotal++
				for x := range m.vals {
					if eng.time[x] >= from && !c27Close(es.vals[x], m.vals[x]) {
						if len(mm) < 3 {
							mm = append(mm, c27Mismatch{"value", fmt.Sprintf("selected series {%s} t=%d: engine %s, input %s", m.key, eng.time[x], c27Fmt(es.vals[x]), c27Fmt(m.vals[x]))})
						}
						break
					}
				}
				delete(eng.series, m.key)
			}
		}
	}
	for k := range eng.series {
		if len(mm) < 3 {
			mm = append(mm, c27Mismatch{"unexpected-series", fmt.Sprintf("engine returned series {%s} that is not a member of any group", k)})
		}
	}
	return mm, judged, notJudged, 0
}

// ---------------------------------------------------------------------------------
// (b) reductions
// ---------------------------------------------------------------------------------

// c27MustAgree: the (rule, operator, digest) triples for which the pushed-down form is the
// same function of the rows as the engine-side form.
func c27MustAgree(c c27Case, digest string) bool {
	additive := digest == "count" || digest == "countsec" || digest == "countraw" || digest == "sum" || digest == "sumsec" || digest == "sumraw"
	aggOK := func(op string) bool {
		switch op {
		case "sum":
			return additive
		case "min":
			return digest == "min"
		case "max":
			return digest == "max"
		}
		return false
	}
	switch c.rule {
	case 0:
		return aggOK(c.op)
	case 1:
		// a window of one point: avg/min/max/sum of it is the point itself
		return c.op == "avg_over_time" || c.op == "min_over_time" || c.op == "max_over_time" || c.op == "sum_over_time"
	case 2:
		p := strings.SplitN(c.op, "-of-", 2) // agg-of-fn
		return p[1] != "count_over_time" && aggOK(p[0])
	case 3:
		p := strings.SplitN(c.op, "-of-", 2) // fn-of-agg
		return p[0] != "count_over_time" && aggOK(p[1])
	}
	return false
}

func c27CompareResults(a, b c27EngResult, from int64) (string, bool) {
	if len(a.time) != len(b.time) {
		return fmt.Sprintf("time axes differ: %d vs %d points", len(a.time), len(b.time)), false
	}
	keys := map[string]bool{}
	for k := range a.series {
		keys[k] = true
	}
	for k := range b.series {
		keys[k] = true
	}
	ks := make([]string, 0, len(keys))
	for k := range keys {
		ks = append(ks, k)
	}
	sort.Strings(ks)
	for _, k := range ks {
		sa, sb := a.series[k], b.series[k]
		for i, t := range a.time {
			if t < from {
				continue
			}
			va, vb := math.NaN(), math.NaN()
			if sa != nil {
				va = sa.vals[i]
			}
			if sb != nil {
				vb = sb.vals[i]
			}
			if !c27Close(va, vb) {
				return fmt.Sprintf("series {%s} t=%d: reduced %s, engine-side %s", k, t, c27Fmt(va), c27Fmt(vb)), false
			}
		}
	}
	if a.dups != 0 || b.dups != 0 {
		return fmt.Sprintf("duplicate label sets: reduced %d, engine-side %d", a.dups, b.dups), false
	}
	return "", true
}

// ---------------------------------------------------------------------------------
// the test
// ---------------------------------------------------------------------------------

func c27Spec(rnd interface{ IntN(int) int }, i int) c27DataSpec {
	now := int64(1790000040) // a multiple of 60
	step := []int64{1, 1, 5, 15, 60, 1, 5}[i%7]
	points := int64(24 + rnd.IntN(24))
	qstep := step
	switch i % 7 {
	case 5:
		qstep = 0 // "auto": the finest LOD
	case 6:
		qstep = 10 // not a LOD level: 5 s LOD, values normalised to 10 s
	}
	sp := c27DataSpec{Step: step, QStep: qstep, Now: now, End: now - 60, NK: 2 + rnd.IntN(2), NJ: 1 + rnd.IntN(3), NH: 1 + rnd.IntN(2)}
	sp.End -= sp.End % 60
	sp.Start = sp.End - points*step
	sp.Start -= sp.Start % 60
	sp.History = 16*step + 180
	sp.GapP = []float64{0.1, 0.25, 0.4, 0}[rnd.IntN(4)]
	sp.UnsetJ = rnd.IntN(3) == 0
	sp.EqualCnt = rnd.IntN(8) == 0
	if i%4 == 3 {
		sp.Big = []float64{1e9, 1.7e9, 1e12, -1e9, -4e12, 8589934592, 3e10}[(i/4)%7]
	}
	return sp
}

func TestVerifC27(t *testing.T) {
	r := verifkit.Start(t, "C27", "promql")
	defer r.Finish()
	r.SetRule("datasets: 2 metrics (value, counter) x up to 18 series over tags k,j,h with per-slot gaps (0-40%), slot-wide holes, late starts / early ends, unset tag values, several raw rows per slot; grid steps 1,5,15,60 s (single LOD), 24-48 visible points. (a) definitions: aggregation over an expression / a grouped selector / an over-time function, non-reducible aggregations over a selector, over-time functions with windows of 1-6 grid steps over selectors and subqueries — compared per timestamp with an independent evaluator (NaN excluded; timestamps where the group / window has no present point are not judged). (b) reductions: every shape of reductions.go rules #0-#3 x 7 digests x groupings, evaluated as rewritten and with the rewrite undone. Non-trivial = the compared result has >= 1 judged timestamp and the data has a gap or >= 2 series in a group; distinct = distinct (dataset, expression).")
	r.Assume("the storage stub implements the series-query contract of internal/api requestHandler.QuerySeries (per-slot merge by the GroupBy tags, tsValues.value(digest, queryStep, lodStep), NilValue for empty slots, one SeriesTag per grouped tag)")
	r.Assume("single-LOD timescales; ranges are multiples of the grid step")

	nData := r.N(42, 1680)
	perData := 150
	workers := 8
	// first: the recorded witness of every reduction signature is the canonical one
	c27CanonicalDefs(r)
	c27Canonical(r, 1, 1)
	c27Canonical(r, 5, 10)
	defer func() {
		r.SetCounter("def.large_offset.worst_error_over_tolerance_permille", c27WorstRatioPermille.Load())
		r.SetCounter("def.inf.points_judged_infinite_result", c27InfPoints[0].Load())
		r.SetCounter("def.inf.points_judged_finite_result", c27InfPoints[1].Load())
		r.SetCounter("def.inf.points_judged_nan_by_definition", c27InfPoints[2].Load())
		r.NotJudged("min_over_time-of-only-plus-Inf / max_over_time-of-only-minus-Inf (engine yields ±MaxFloat64)", c27InfPoints[3].Load())
	}()
	r.Parallel(workers, "cases", func(w *verifkit.Worker) {
		for di := w.Index; di < nData; di += workers {
			rnd := r.Rand(fmt.Sprintf("data/%d", di))
			sp := c27Spec(rnd, di)
			st := c27GenStore(rnd, sp)
			g := &c27Gen{rnd: rnd, step: sp.Step, big: sp.Big != 0}
			for ci := 0; ci < perData; ci++ {
				if ci%2 == 0 || sp.Big != 0 {
					// large-offset data sets: definitions only (the reduction comparison is
					// between two engine evaluations and gains nothing from the magnitude)
					c27DoDef(r, w, st, sp, g.defCase(), di)
				} else {
					c27DoRed(r, w, st, sp, g.redCase(), di)
				}
			}
		}
	})
}

func c27Witness(sp c27DataSpec, di int, expr string, extra map[string]any) map[string]any {
	w := map[string]any{"dataset": di, "expr": expr, "query": map[string]any{"start": sp.Start, "end": sp.End, "step": sp.QStep, "now": sp.Now},
		"data": fmt.Sprintf("%+v", sp)}
	for k, v := range extra {
		w[k] = v
	}
	return w
}

func c27DoDef(r *verifkit.Run, w *verifkit.Worker, st *c27Store, sp c27DataSpec, c c27Case, di int) {
	expr := c.node.text()
	var eng c27EngResult
	var err error
	if r.Guard("C27/definition/panic", func() any { return expr }, func() { eng, _, err = c27RunEngine(st, sp, expr, false) }) {
		return
	}
	if err != nil {
		r.Violation("C27/definition/engine-error", "the engine rejects a supported expression: "+c27ErrClass(err), c27Witness(sp, di, expr, map[string]any{"error": err.Error()}))
		return
	}
	if len(eng.reduced) != 0 {
		// the generator meant this shape not to be reducible; judge it anyway, but say so
		w.Count("def.unexpectedly_reduced", 1)
	}
	mm, judged, notJudged, nanJudged := c27JudgeDef(c, st, sp, eng)
	opName := ""
	if c.outer != nil && c.outer == c.node {
		opName = c.outer.op
	} else if c.ot != nil {
		opName = c.ot.fn
	}
	if opName == "topk" || opName == "bottomk" {
		w.Count("def.topk_members_judged", int64(judged))
		w.Count("def.topk_members_not_judged_tie_or_all_nondecreasing", int64(notJudged))
	} else {
		w.Count("def.timestamps_judged", int64(judged))
		w.Count("def.timestamps_not_judged_no_present_point", int64(notJudged))
		w.Count("def.timestamps_judged_with_missing_member", int64(nanJudged))
	}
	w.Count("def.cases."+c.kind, 1)
	if w.Index == 0 && judged > 0 && r.WantSample() {
		r.Sample(map[string]any{"kind": c.kind, "expr": expr, "step": sp.Step, "query_step": sp.QStep, "series_in_result": len(eng.series), "judged": judged})
	}
	w.Count("def.op."+opName, 1)
	w.Case(judged > 0, fmt.Sprintf("%d|%s", di, expr))
	for _, m := range mm {
		key := "C27/definition/" + opName
		switch m.class {
		case "nan-member":
			key += "-nan-member"
		case "value":
		default:
			key += "/" + m.class
		}
		r.Violation(key, "engine result differs from the operator definition ("+m.class+")", c27Witness(sp, di, expr, map[string]any{"mismatch": m.detail, "kind": c.kind}))
	}
}

func c27ErrClass(err error) string {
	s := err.Error()
	if len(s) > 80 {
		s = s[:80]
	}
	return s
}

func c27DoRed(r *verifkit.Run, w *verifkit.Worker, st *c27Store, sp c27DataSpec, c c27Case, di int) {
	expr := c.node.text()
	digest := c.sel.digest(st).String()
	key := c27RedKey(c, digest, sp)
	var red, eng c27EngResult
	var err1, err2 error
	var h1 *c27Handler
	if r.Guard("C27/reduction/panic", func() any { return expr }, func() {
		red, h1, err1 = c27RunEngine(st, sp, expr, false)
		eng, _, err2 = c27RunEngine(st, sp, expr, true)
	}) {
		return
	}
	if err1 != nil || err2 != nil {
		r.Violation("C27/reduction/engine-error", "the engine rejects a supported expression", c27Witness(sp, di, expr, map[string]any{"error_reduced": fmt.Sprint(err1), "error_engine_side": fmt.Sprint(err2)}))
		return
	}
	wantType := "*parser.AggregateExpr"
	if c.rule == 1 || c.rule == 3 {
		wantType = "*parser.Call"
	}
	if len(red.reduced) != 1 || red.redType[0] != wantType {
		// rule did not fire (or fired on a smaller sub-expression): not a case of this clause
		w.Count("red.rule_did_not_fire_as_expected", 1)
		r.NotJudged("reduction-did-not-fire", 1)
		return
	}
	for _, q := range h1.queries {
		w.Count("red.pushed_query.range="+fmt.Sprint(q.Range != 0)+".grouped="+fmt.Sprint(len(q.GroupBy) != 0), 1)
	}
	detail, same := c27CompareResults(red, eng, sp.Start)
	w.Count(fmt.Sprintf("red.rule%d.cases", c.rule), 1)
	if c.wrapped {
		w.Count("red.cases_under_another_operator", 1)
	}
	must := c27MustAgree(c, digest)
	nontrivial := len(eng.series) > 0
	w.Case(nontrivial, fmt.Sprintf("%d|%s", di, expr))
	if same {
		if must {
			w.Count("red.must_agree.agreed", 1)
		} else {
			w.Count("red.other.agreed_on_this_data", 1)
		}
	} else {
		if must && strings.Contains(key, "step-ne-lod") {
			w.Count("red.must_agree.disagreed_because_query_step_is_not_the_lod_step", 1)
		} else if must {
			w.Count("red.must_agree.DISAGREED", 1)
		} else {
			w.Count("red.other.disagreed", 1)
		}
		what := fmt.Sprintf("reduction rule #%d changes the result of %s over a selector with digest %s", c.rule, c.op, digest)
		if must {
			what += " (inside the must-agree set)"
		}
		r.Violation(key, what, c27Witness(sp, di, expr, map[string]any{"first_difference": detail, "replaced": red.reduced}))
	}
	// the engine-side evaluation of the same expression is also a definition case — except
	// where count / count_over_time feed another operator: they are 0 (not absent) where nothing
	// is present, which the definitions do not judge
	if c.wrapped && strings.Contains(c.op, "count") || (c.rule == 2 || c.rule == 3) && strings.Contains(c.op, "count") {
		r.NotJudged("definition-of-count-fed-into-another-operator", 1)
		return
	}
	mm, judged, notJudged, nanJudged := c27JudgeDef(c, st, sp, eng)
	w.Count("def.timestamps_judged", int64(judged))
	w.Count("def.timestamps_not_judged_no_present_point", int64(notJudged))
	w.Count("def.timestamps_judged_with_missing_member", int64(nanJudged))
	w.Count("def.cases.engine-side-of-"+c.kind, 1)
	for _, m := range mm {
		k := "C27/definition/" + strings.ReplaceAll(c.op, "-of-", ".")
		if m.class != "value" {
			k += "/" + m.class
		}
		r.Violation(k, "engine-side result differs from the operator definition ("+m.class+")", c27Witness(sp, di, expr, map[string]any{"mismatch": m.detail, "kind": c.kind + " (rewrite undone)"}))
	}
}
