//go:build verif

package parser

import (
	"bufio"
	"encoding/binary"
	"encoding/json"
	"errors"
	"fmt"
	"math/rand/v2"
	"os"
	"os/exec"
	"path/filepath"
	"runtime/debug"
	"strconv"
	"strings"
	"sync"
	"testing"

	"github.com/VKCOM/statshouse/internal/zzverif/verifkit"
)

// c28Case is what the oracle did with one input.
type c28Case struct {
	accepted   bool
	nontrivial bool
	internal   bool // ParseExpr returned errUnexpected (a runtime panic recovered inside the parser)
	skipped    bool // accepted but too long to print (quadratic Sprintf printer)
	findings   []c28Finding
	feat       c28Stats
}

const c28MaxPrintLen = 20000

// c28Eval runs parse → print → parse → compare on one input.  Panics that leave
// ParseExpr / String are turned into findings here (a fatal error is handled by the
// supervisor of the child process).
func c28Eval(input string) (res c28Case) {
	var e Expr
	var err error
	stage := "parse"
	defer func() {
		if p := recover(); p != nil {
			res.findings = append(res.findings, c28Finding{
				Key:  "C28/panic/" + stage,
				What: fmt.Sprintf("panic in %s: %v", stage, p),
				Witness: map[string]any{"input": input, "input_quoted": strconv.Quote(input), "panic": fmt.Sprint(p),
					"stack": c28FirstLines(string(debug.Stack()), 40)},
			})
		}
	}()
	e, err = ParseExpr(input)
	if err != nil {
		if errors.Is(err, errUnexpected) {
			// parser.recover() caught a runtime error (index out of range, nil dereference …)
			// raised inside the parser and printed its stack to stderr: the parser did panic,
			// the caller only sees "unexpected error"
			res.internal = true
			res.findings = append(res.findings, c28Finding{Key: "C28/panic/recovered-runtime-error",
				What:    "a runtime panic inside the parser (recovered by parser.recover, reported as `unexpected error`)",
				Witness: map[string]any{"input": input, "input_quoted": strconv.Quote(input)}})
		}
		return res
	}
	if c28IsNil(e) {
		// "start: /* empty */" without EOF — nothing accepted, nothing to print
		return res
	}
	res.accepted = true
	c28Walk(e, &res.feat, false)
	res.nontrivial = res.feat.nodes >= 2 || res.feat.selOffset || res.feat.multiOffset || res.feat.at || res.feat.ext
	if len(input) > c28MaxPrintLen {
		res.skipped = true
		return res
	}
	stage = "print"
	printed := e.String()
	stage = "reparse-or-compare"
	res.findings = c28Judge(input, e, printed)
	// second generation: printing the reparsed tree must be a fixed point of the text
	if len(res.findings) == 0 {
		stage = "reprint"
		e2, _ := ParseExpr(printed)
		if p2 := e2.String(); p2 != printed {
			res.findings = append(res.findings, c28Finding{Key: "C28/print/not-a-fixed-point", What: "print(parse(print(e))) differs from print(e) although the trees compare equal",
				Witness: map[string]any{"input": input, "printed": printed, "printed_again": p2}})
		}
	}
	return res
}

func c28FirstLines(s string, n int) string {
	l := strings.SplitN(s, "\n", n+1)
	if len(l) > n {
		l = l[:n]
	}
	return strings.Join(l, "\n")
}

func c28FeatCounters(st *c28Stats, count func(string, int64)) {
	for name, on := range map[string]bool{
		"feat.selector_offset": st.selOffset, "feat.subquery": st.subq, "feat.subquery_offset": st.subqOffset, "feat.multi_offset": st.multiOffset,
		"feat.matrix": st.mat, "feat.at_modifier": st.at, "feat.aggregate": st.agg, "feat.binary": st.bin, "feat.call": st.call,
		"feat.unary": st.unary, "feat.string": st.str, "feat.statshouse_ext": st.ext,
	} {
		if on {
			count(name, 1)
		}
	}
}

func TestVerifC28(t *testing.T) {
	r := verifkit.Start(t, "C28", "parser")
	defer r.Finish()
	r.SetRule("part 1 (in process): grammar-directed random PromQL text over parse.y incl. the StatsHouse extensions (@name matchers, name:$var bindings, offset [a, b], default, keywords as metric names / grouping labels, numeric label names), every quote style / number format / duration form, ~5% deliberately invalid productions. part 2 (re-exec'd child, each input written to a file before it is parsed): the same texts mutated at byte and token level, token soup, random bytes and deep/long pathological inputs. Judged = input accepted by ParseExpr (round trip: print, reparse, compare field by field modulo positions, reprint is a fixed point) or rejected (no panic). Non-trivial = accepted and the tree has >= 2 nodes or a modifier/extension; distinct = distinct input text.")
	r.Assume("nil and empty Grouping / MatchingLabels / Include / OriginalOffsetEx compare equal; label matchers compare as a set; a subquery step is only a flag in this grammar (maybe_duration) and compares as such")

	nGrammar := r.N(160000, 2000000)
	nStrings := r.N(120000, 1600000)
	workers := 8

	// ---- part 1: grammar-directed, in process
	r.Parallel(workers, "grammar", func(w *verifkit.Worker) {
		g := c28NewGen(w.Rnd)
		for i := 0; i < nGrammar/workers; i++ {
			in := g.top()
			res := c28Eval(in)
			c28Account(r, w.Count, in, res, "grammar")
			w.Case(res.nontrivial, in)
			if w.Index == 0 && res.accepted && res.nontrivial && r.WantSample() {
				r.Sample(map[string]any{"input": in, "printed": c28SafeStringOf(in)})
			}
		}
	})

	// ---- part 2: hostile strings in a supervised child
	c28Supervise(t, r, nStrings, workers)
}

func c28SafeStringOf(in string) string {
	e, err := ParseExpr(in)
	if err != nil || c28IsNil(e) {
		return ""
	}
	return c28SafeString(e)
}

func c28Account(r *verifkit.Run, count func(string, int64), in string, res c28Case, class string) {
	count("inputs."+class, 1)
	switch {
	case res.accepted && res.skipped:
		count("accepted.print_skipped_long_input", 1)
	case res.accepted:
		count("accepted.round_trip_judged", 1)
		c28FeatCounters(&res.feat, count)
	default:
		count("rejected.no_panic_judged", 1)
	}
	if res.internal {
		count("rejected.parser_recovered_own_runtime_panic", 1)
	}
	for _, f := range res.findings {
		r.Violation(f.Key, f.What, f.Witness)
	}
}

// ---------------------------------------------------------------------------------
// child process
// ---------------------------------------------------------------------------------

type c28ChildResult struct {
	Done     []int64          `json:"done"`     // next index per worker
	Counters map[string]int64 `json:"counters"`
	ViolN    map[string]int64 `json:"viol_n"`
}

func c28WorkerRand(seed uint64, i int) *rand.Rand {
	return rand.New(rand.NewPCG(seed, verifkit.Hash("C28", "parser", fmt.Sprintf("strings/%d", i))))
}

// c28InputAt regenerates the i-th worker's input list lazily; pathological inputs are
// the first entries of worker 0.
type c28Stream struct {
	g     *c28Gen
	patho []string
	idx   int64
}

func c28NewStream(seed uint64, worker int, thorough bool) *c28Stream {
	s := &c28Stream{g: c28NewGen(c28WorkerRand(seed, worker))}
	if worker == 0 {
		s.patho = append(s.patho, c28Pathological(300)...)
		s.patho = append(s.patho, c28Pathological(5000)...)
		if thorough {
			s.patho = append(s.patho, c28Pathological(200000)...)
		} else {
			s.patho = append(s.patho, c28Pathological(50000)...)
		}
	}
	return s
}

func (s *c28Stream) next() (string, string) {
	i := s.idx
	s.idx++
	if i < int64(len(s.patho)) {
		return s.patho[i], "pathological"
	}
	return s.g.hostileInput()
}

// TestVerifC28Child is the re-exec'd worker process.  Inert unless VERIF_C28_CHILD is set.
func TestVerifC28Child(t *testing.T) {
	dir := os.Getenv("VERIF_C28_CHILD")
	if dir == "" {
		t.Skip("child of TestVerifC28 only")
	}
	seed, _ := strconv.ParseUint(os.Getenv("VERIF_SEED"), 10, 64)
	if seed == 0 && os.Getenv("VERIF_SEED") == "" {
		seed = 1
	}
	thorough := os.Getenv("VERIF_TIER") == "thorough"
	if one := os.Getenv("VERIF_C28_ONE"); one != "" {
		// single-input mode: attribute a fatal error to one candidate
		b, err := os.ReadFile(one)
		if err != nil || len(b) < 16 {
			t.Fatalf("bad candidate file: %v", err)
		}
		res := c28Eval(string(b[16:]))
		for _, f := range res.findings {
			t.Logf("finding %s", f.Key)
		}
		return
	}
	workers, _ := strconv.Atoi(os.Getenv("VERIF_C28_WORKERS"))
	per, _ := strconv.ParseInt(os.Getenv("VERIF_C28_PER"), 10, 64)
	var from []int64
	_ = json.Unmarshal([]byte(os.Getenv("VERIF_C28_FROM")), &from)
	for len(from) < workers {
		from = append(from, 0)
	}

	var mu sync.Mutex
	res := c28ChildResult{Done: make([]int64, workers), Counters: map[string]int64{}, ViolN: map[string]int64{}}
	violF, err := os.OpenFile(filepath.Join(dir, "viol.jsonl"), os.O_CREATE|os.O_WRONLY|os.O_APPEND, 0o644)
	if err != nil {
		t.Fatal(err)
	}
	defer violF.Close()
	var wg sync.WaitGroup
	for wi := 0; wi < workers; wi++ {
		wg.Add(1)
		go func(wi int) {
			defer wg.Done()
			cur, err := os.OpenFile(filepath.Join(dir, fmt.Sprintf("w%d.cur", wi)), os.O_CREATE|os.O_WRONLY, 0o644)
			if err != nil {
				panic(err)
			}
			defer cur.Close()
			casesF, err := os.OpenFile(filepath.Join(dir, fmt.Sprintf("w%d.cases", wi)), os.O_CREATE|os.O_WRONLY|os.O_APPEND, 0o644)
			if err != nil {
				panic(err)
			}
			defer casesF.Close()
			cases := bufio.NewWriterSize(casesF, 9*256)
			defer cases.Flush()
			local := map[string]int64{}
			count := func(k string, d int64) { local[k] += d }
			st := c28NewStream(seed, wi, thorough)
			buf := make([]byte, 0, 1<<16)
			for st.idx < per {
				idx := st.idx
				in, class := st.next()
				if idx < from[wi] {
					continue // already handled by an earlier incarnation of this child
				}
				// the input is on disk before the parser sees it
				buf = buf[:0]
				buf = binary.LittleEndian.AppendUint64(buf, uint64(idx))
				buf = binary.LittleEndian.AppendUint64(buf, uint64(len(in)))
				buf = append(buf, in...)
				if _, err := cur.WriteAt(buf, 0); err != nil {
					panic(err)
				}
				if len(in) > 1<<16 {
					_ = cur.Truncate(int64(len(buf)))
				}
				r := c28Eval(in)
				count("inputs."+class, 1)
				switch {
				case r.accepted && r.skipped:
					count("accepted.print_skipped_long_input", 1)
				case r.accepted:
					count("accepted.round_trip_judged", 1)
					c28FeatCounters(&r.feat, count)
				default:
					count("rejected.no_panic_judged", 1)
				}
				if r.internal {
					count("rejected.parser_recovered_own_runtime_panic", 1)
				}
				for _, f := range r.findings {
					mu.Lock()
					res.ViolN[f.Key]++
					if res.ViolN[f.Key] <= 3 {
						if s, ok := f.Witness["input"].(string); ok && len(s) > 4000 {
							f.Witness["input"] = s[:4000] + fmt.Sprintf("…(%d bytes)", len(s))
						}
						if s, ok := f.Witness["printed"].(string); ok && len(s) > 4000 {
							f.Witness["printed"] = s[:4000] + "…"
						}
						b, _ := json.Marshal(f)
						violF.Write(append(b, '\n'))
					}
					mu.Unlock()
				}
				var rec [9]byte
				binary.LittleEndian.PutUint64(rec[:8], verifkit.Hash(in))
				if r.nontrivial {
					rec[8] = 1
				}
				cases.Write(rec[:])
			}
			mu.Lock()
			res.Done[wi] = st.idx
			for k, v := range local {
				res.Counters[k] += v
			}
			mu.Unlock()
		}(wi)
	}
	wg.Wait()
	b, _ := json.Marshal(res)
	tmp := filepath.Join(dir, "result.json.tmp")
	if err := os.WriteFile(tmp, b, 0o644); err != nil {
		t.Fatal(err)
	}
	if err := os.Rename(tmp, filepath.Join(dir, "result.json")); err != nil {
		t.Fatal(err)
	}
}

func c28ReadCur(path string) (idx int64, in string, ok bool) {
	b, err := os.ReadFile(path)
	if err != nil || len(b) < 16 {
		return 0, "", false
	}
	idx = int64(binary.LittleEndian.Uint64(b[:8]))
	n := int(binary.LittleEndian.Uint64(b[8:16]))
	if n < 0 || 16+n > len(b) {
		return idx, "", false
	}
	return idx, string(b[16 : 16+n]), true
}

func c28RunChild(dir, logName string, extra ...string) (string, error) {
	cmd := exec.Command(os.Getenv("VERIF_SELF"), "-test.run", "^TestVerifC28Child$", "-test.count", "1", "-test.timeout", "0")
	cmd.Env = append(os.Environ(), extra...)
	logp := filepath.Join(dir, logName)
	lf, err := os.OpenFile(logp, os.O_CREATE|os.O_WRONLY|os.O_APPEND, 0o644)
	if err != nil {
		return "", err
	}
	defer lf.Close()
	cmd.Stdout, cmd.Stderr = lf, lf
	err = cmd.Run()
	return logp, err
}

func c28Tail(path string, n int) string {
	b, _ := os.ReadFile(path)
	if len(b) > n {
		// keep the head (fatal error line + first goroutine), it names the cause
		return string(b[:n/2]) + "\n…\n" + string(b[len(b)-n/2:])
	}
	return string(b)
}

// c28Supervise runs the child, restarts it after a fatal error past the offending
// input, and merges what the child judged into the evidence.
func c28Supervise(t *testing.T, r *verifkit.Run, total, workers int) {
	if os.Getenv("VERIF_SELF") == "" {
		r.Inconclusive("VERIF_SELF not set: the child-process part (no panic on arbitrary strings) was not run")
		return
	}
	dir := r.MkTmp("c28child")
	defer os.RemoveAll(dir)
	per := int64(total / workers)
	from := make([]int64, workers)
	deaths := 0
	for {
		fromJS, _ := json.Marshal(from)
		_ = os.Remove(filepath.Join(dir, "result.json"))
		logp, runErr := c28RunChild(dir, fmt.Sprintf("child-%d.log", deaths), "VERIF_C28_CHILD="+dir, "VERIF_C28_WORKERS="+strconv.Itoa(workers),
			"VERIF_C28_PER="+strconv.FormatInt(per, 10), "VERIF_C28_FROM="+string(fromJS))
		var res c28ChildResult
		b, rdErr := os.ReadFile(filepath.Join(dir, "result.json"))
		if runErr == nil && rdErr == nil && json.Unmarshal(b, &res) == nil {
			for k, v := range res.Counters {
				r.Count("child."+k, v)
				if k == "accepted.print_skipped_long_input" {
					r.NotJudged("round-trip-of-accepted-inputs-longer-than-20kB (parsed only)", v)
				}
			}
			for k, v := range res.ViolN {
				r.Count("child.findings."+strings.TrimPrefix(k, "C28/"), v)
			}
			break
		}
		// the child died: attribute the fatal error to one of the inputs in flight
		deaths++
		r.Count("child.deaths", 1)
		attributed := false
		for wi := 0; wi < workers; wi++ {
			curp := filepath.Join(dir, fmt.Sprintf("w%d.cur", wi))
			idx, in, ok := c28ReadCur(curp)
			if !ok {
				continue
			}
			onep := filepath.Join(dir, "one.cur")
			raw, _ := os.ReadFile(curp)
			_ = os.WriteFile(onep, raw, 0o644)
			onelog, err := c28RunChild(dir, fmt.Sprintf("one-%d-%d.log", deaths, wi), "VERIF_C28_CHILD="+dir, "VERIF_C28_ONE="+onep)
			if err != nil {
				attributed = true
				show := in
				if len(show) > 2000 {
					show = show[:2000] + fmt.Sprintf("…(%d bytes)", len(in))
				}
				out := c28Tail(onelog, 6000)
				r.Violation("C28/panic/fatal/"+c28FatalClass(out), "the process dies (fatal error / unrecovered panic) on this input",
					map[string]any{"input": show, "input_len": len(in), "input_quoted_prefix": strconv.Quote(show[:min(len(show), 300)]), "worker": wi, "index": idx, "child_output": out})
				from[wi] = idx + 1
			} else {
				from[wi] = idx // not the culprit: redo it
			}
			_ = os.Remove(onelog)
		}
		if !attributed {
			r.Inconclusive(fmt.Sprintf("child process died (%v) and no in-flight input reproduces it alone: %s", runErr, c28Tail(logp, 3000)))
			break
		}
		if deaths >= 25 {
			r.Inconclusive("child process died 25 times; the remaining hostile inputs were not run")
			break
		}
	}
	// findings the child recorded (first witnesses per key)
	if f, err := os.Open(filepath.Join(dir, "viol.jsonl")); err == nil {
		sc := bufio.NewScanner(f)
		sc.Buffer(make([]byte, 1<<20), 1<<26)
		for sc.Scan() {
			var fd c28Finding
			if json.Unmarshal(sc.Bytes(), &fd) != nil {
				continue
			}
			r.Violation(fd.Key, fd.What, fd.Witness)
		}
		f.Close()
	}
	// case accounting
	for wi := 0; wi < workers; wi++ {
		b, err := os.ReadFile(filepath.Join(dir, fmt.Sprintf("w%d.cases", wi)))
		if err != nil {
			continue
		}
		for o := 0; o+9 <= len(b); o += 9 {
			r.CaseHash(b[o+8] == 1, binary.LittleEndian.Uint64(b[o:o+8]))
		}
	}
}

func c28FatalClass(out string) string {
	for _, l := range strings.Split(out, "\n") {
		l = strings.TrimSpace(l)
		if strings.HasPrefix(l, "fatal error:") || strings.HasPrefix(l, "panic:") || strings.HasPrefix(l, "runtime:") {
			return c28Slug(l)
		}
	}
	return "unknown"
}
