//go:build verif

package parser

import (
	"fmt"
	"math"
	"reflect"
	"regexp"
	"sort"
	"strings"
)

// ---------------------------------------------------------------------------------
// comparator: ASTs equal modulo positions.  nil and empty Grouping / MatchingLabels /
// Include / OriginalOffsetEx are equal (they evaluate identically); label matchers are a
// set (the printer sorts them, the evaluator ANDs them); NaN == NaN.
// Returns "" or "<NodeType>.<Field>" of the first difference (used in the signature).
// ---------------------------------------------------------------------------------

func c28IsNil(n Node) bool {
	if n == nil {
		return true
	}
	v := reflect.ValueOf(n)
	return v.Kind() == reflect.Ptr && v.IsNil()
}

func c28StrsEq(a, b []string) bool {
	if len(a) != len(b) {
		return false
	}
	for i := range a {
		if a[i] != b[i] {
			return false
		}
	}
	return true
}

func c28IntsEq(a, b []int64) bool {
	if len(a) != len(b) {
		return false
	}
	for i := range a {
		if a[i] != b[i] {
			return false
		}
	}
	return true
}

func c28TsEq(a, b *int64) bool {
	if a == nil || b == nil {
		return a == nil && b == nil
	}
	return *a == *b
}

func c28MatcherSet(v *VectorSelector) []string {
	seen := map[string]bool{}
	var out []string
	for _, m := range v.LabelMatchers {
		if m == nil {
			out = append(out, "<nil>")
			continue
		}
		s := fmt.Sprintf("%d\x00%s\x00%s", m.Type, m.Name, m.Value)
		if !seen[s] {
			seen[s] = true
			out = append(out, s)
		}
	}
	sort.Strings(out)
	return out
}

func c28Diff(a, b Node) string {
	if c28IsNil(a) || c28IsNil(b) {
		if c28IsNil(a) && c28IsNil(b) {
			return ""
		}
		return "nil-vs-node"
	}
	if reflect.TypeOf(a) != reflect.TypeOf(b) {
		return fmt.Sprintf("node-type(%s-vs-%s)", strings.TrimPrefix(fmt.Sprintf("%T", a), "*parser."), strings.TrimPrefix(fmt.Sprintf("%T", b), "*parser."))
	}
	switch x := a.(type) {
	case *AggregateExpr:
		y := b.(*AggregateExpr)
		switch {
		case x.Op != y.Op:
			return "AggregateExpr.Op"
		case x.Without != y.Without:
			return "AggregateExpr.Without"
		case !c28StrsEq(x.Grouping, y.Grouping):
			return "AggregateExpr.Grouping"
		}
		if d := c28Diff(x.Param, y.Param); d != "" {
			return d
		}
		return c28Diff(x.Expr, y.Expr)
	case *BinaryExpr:
		y := b.(*BinaryExpr)
		switch {
		case x.Op != y.Op:
			return "BinaryExpr.Op"
		case x.ReturnBool != y.ReturnBool:
			return "BinaryExpr.ReturnBool"
		case (x.VectorMatching == nil) != (y.VectorMatching == nil):
			return "BinaryExpr.VectorMatching"
		}
		if x.VectorMatching != nil {
			p, q := x.VectorMatching, y.VectorMatching
			switch {
			case p.Card != q.Card:
				return "BinaryExpr.VectorMatching.Card"
			case p.On != q.On:
				return "BinaryExpr.VectorMatching.On"
			case !c28StrsEq(p.MatchingLabels, q.MatchingLabels):
				return "BinaryExpr.VectorMatching.MatchingLabels"
			case !c28StrsEq(p.Include, q.Include):
				return "BinaryExpr.VectorMatching.Include"
			}
		}
		if d := c28Diff(x.LHS, y.LHS); d != "" {
			return d
		}
		return c28Diff(x.RHS, y.RHS)
	case *Call:
		y := b.(*Call)
		if (x.Func == nil) != (y.Func == nil) || x.Func != nil && x.Func.Name != y.Func.Name {
			return "Call.Func"
		}
		if len(x.Args) != len(y.Args) {
			return "Call.Args.len"
		}
		for i := range x.Args {
			if d := c28Diff(x.Args[i], y.Args[i]); d != "" {
				return d
			}
		}
		return ""
	case *MatrixSelector:
		y := b.(*MatrixSelector)
		if x.Range != y.Range {
			return "MatrixSelector.Range"
		}
		return c28Diff(x.VectorSelector, y.VectorSelector)
	case *SubqueryExpr:
		y := b.(*SubqueryExpr)
		switch {
		case x.Range != y.Range:
			return "SubqueryExpr.Range"
		case x.Step != y.Step:
			return "SubqueryExpr.Step"
		case x.OriginalOffset != y.OriginalOffset:
			return "SubqueryExpr.OriginalOffset"
		case x.Offset != y.Offset:
			return "SubqueryExpr.Offset"
		case !c28TsEq(x.Timestamp, y.Timestamp):
			return "SubqueryExpr.Timestamp"
		case x.StartOrEnd != y.StartOrEnd:
			return "SubqueryExpr.StartOrEnd"
		}
		return c28Diff(x.Expr, y.Expr)
	case *NumberLiteral:
		y := b.(*NumberLiteral)
		if math.IsNaN(x.Val) && math.IsNaN(y.Val) {
			return ""
		}
		if math.Float64bits(x.Val) != math.Float64bits(y.Val) {
			return "NumberLiteral.Val"
		}
		return ""
	case *ParenExpr:
		return c28Diff(x.Expr, b.(*ParenExpr).Expr)
	case *StringLiteral:
		if x.Val != b.(*StringLiteral).Val {
			return "StringLiteral.Val"
		}
		return ""
	case *UnaryExpr:
		y := b.(*UnaryExpr)
		if x.Op != y.Op {
			return "UnaryExpr.Op"
		}
		return c28Diff(x.Expr, y.Expr)
	case *VectorSelector:
		y := b.(*VectorSelector)
		switch {
		case x.Name != y.Name:
			return "VectorSelector.Name"
		case x.OriginalOffset != y.OriginalOffset:
			return "VectorSelector.OriginalOffset"
		case !c28IntsEq(x.OriginalOffsetEx, y.OriginalOffsetEx):
			return "VectorSelector.OriginalOffsetEx"
		case !c28TsEq(x.Timestamp, y.Timestamp):
			return "VectorSelector.Timestamp"
		case x.StartOrEnd != y.StartOrEnd:
			return "VectorSelector.StartOrEnd"
		case !c28StrsEq(c28MatcherSet(x), c28MatcherSet(y)):
			return "VectorSelector.LabelMatchers"
		}
		// the remaining (engine-side) fields: the parser leaves them zero; any difference counts
		p, q := *x, *y
		p.PosRange, q.PosRange = PositionRange{}, PositionRange{}
		p.LabelMatchers, q.LabelMatchers = nil, nil
		p.OriginalOffsetEx, q.OriginalOffsetEx = nil, nil
		p.Timestamp, q.Timestamp = nil, nil
		if !reflect.DeepEqual(p, q) {
			return "VectorSelector.engine-fields"
		}
		return ""
	case *StepInvariantExpr:
		return c28Diff(x.Expr, b.(*StepInvariantExpr).Expr)
	}
	return fmt.Sprintf("unhandled-node-type(%T)", a)
}

// c28Stats: size of the tree and which extension / modifier features it has.
type c28Stats struct {
	nodes                                         int
	selOffset, subq, subqOffset, multiOffset, mat bool
	at, agg, bin, call, unary, str, ext           bool
}

func c28Walk(n Node, st *c28Stats, underMatrix bool) {
	if c28IsNil(n) {
		return
	}
	st.nodes++
	switch x := n.(type) {
	case *AggregateExpr:
		st.agg = true
		c28Walk(x.Param, st, false)
		c28Walk(x.Expr, st, false)
	case *BinaryExpr:
		st.bin = true
		if x.Op == LDEFAULT {
			st.ext = true
		}
		c28Walk(x.LHS, st, false)
		c28Walk(x.RHS, st, false)
	case *Call:
		st.call = true
		for _, a := range x.Args {
			c28Walk(a, st, false)
		}
	case *MatrixSelector:
		st.mat = true
		c28Walk(x.VectorSelector, st, true)
	case *SubqueryExpr:
		st.subq = true
		if x.OriginalOffset != 0 {
			st.subqOffset = true
		}
		if x.Timestamp != nil || x.StartOrEnd != 0 {
			st.at = true
		}
		c28Walk(x.Expr, st, false)
	case *ParenExpr:
		c28Walk(x.Expr, st, false)
	case *UnaryExpr:
		st.unary = true
		c28Walk(x.Expr, st, false)
	case *StringLiteral:
		st.str = true
	case *VectorSelector:
		if x.OriginalOffset != 0 && !underMatrix {
			st.selOffset = true
		}
		if len(x.OriginalOffsetEx) != 0 {
			st.multiOffset = true
			st.ext = true
		}
		if x.Timestamp != nil || x.StartOrEnd != 0 {
			st.at = true
		}
		for _, m := range x.LabelMatchers {
			if m != nil && (m.Name == "__what__" || m.Name == "__by__" || m.Name == "__bind__") {
				st.ext = true
			}
		}
	}
}

// ---------------------------------------------------------------------------------
// reference printer.  With flags == 0 it prints every field the parser fills in a form
// the grammar accepts; each flag switches on the emulation of one printer defect seen on
// the pinned tree.  It is used ONLY after the real round trip has failed, to attribute
// the failure: if the real text equals c28Ref(e, S) for a flag set S and c28Ref(e, 0)
// round-trips, the failure is explained by S and is reported under the keys of the
// members of S that break the round trip on their own; otherwise the failure gets a
// signature of its own (reparse error text / first differing field).
// ---------------------------------------------------------------------------------

type c28Flags uint8

const (
	c28FOffset c28Flags = 1 << iota // bare selector: " offset %d" without unit
	c28FSubq                        // subquery suffix "[%d:%d]" and " offset %d" without units
	c28FMulti                       // OriginalOffsetEx not printed
	c28FNameless                    // selector without metric name: braces dropped when no matcher is printed, `__name__=""` skipped
	c28FIgnEmpty                    // `ignoring ()` with group_left/group_right: the whole modifier is dropped
	c28FPlusInf                     // +Inf printed with its sign ("+Inf ^ 2", "+Inf[5m:]" then parse as unary plus around the operation)
	c28FAll    = c28FOffset | c28FSubq | c28FMulti | c28FNameless | c28FIgnEmpty | c28FPlusInf
)

var c28FlagList = []c28Flags{c28FOffset, c28FSubq, c28FMulti, c28FNameless, c28FIgnEmpty, c28FPlusInf}

var c28FlagKeys = map[c28Flags]string{
	c28FOffset: "C28/print/offset-no-unit",
	c28FSubq:   "C28/print/subquery-no-unit",
	c28FMulti:  "C28/print/multi-offset-lost",
	c28FNameless: "C28/print/nameless-selector-braces-dropped",
	c28FIgnEmpty: "C28/print/ignoring-empty-group-modifier-lost",
	c28FPlusInf:  "C28/print/plus-inf-sign",
}

func c28RefAt(ts *int64, soe ItemType) string {
	if ts != nil {
		return fmt.Sprintf(" @ %.3f", float64(*ts)/1000.0)
	} else if soe == START {
		return " @ start()"
	} else if soe == END {
		return " @ end()"
	}
	return ""
}

func c28RefMulti(ex []int64, f c28Flags) string {
	if len(ex) == 0 || f&c28FMulti != 0 {
		return ""
	}
	parts := make([]string, len(ex))
	for i, v := range ex {
		parts[i] = fmt.Sprintf("%ds", v)
	}
	return " offset [" + strings.Join(parts, ", ") + "]"
}

func c28RefSel(v *VectorSelector, f c28Flags, withMods bool) string {
	var ls []string
	for _, m := range v.LabelMatchers {
		if m.Name == "__name__" && m.Type == 0 && m.Value == v.Name && (v.Name != "" || f&c28FNameless != 0) {
			continue
		}
		ls = append(ls, m.String())
	}
	s := v.Name
	if len(ls) != 0 || (v.Name == "" && f&c28FNameless == 0) {
		sort.Strings(ls)
		s += "{" + strings.Join(ls, ",") + "}"
	}
	if !withMods {
		return s
	}
	s += c28RefAt(v.Timestamp, v.StartOrEnd)
	s += c28RefMulti(v.OriginalOffsetEx, f)
	if v.OriginalOffset != 0 {
		if f&c28FOffset != 0 {
			s += fmt.Sprintf(" offset %d", v.OriginalOffset)
		} else {
			s += fmt.Sprintf(" offset %ds", v.OriginalOffset)
		}
	}
	return s
}

func c28Ref(n Node, f c28Flags) string {
	if c28IsNil(n) {
		return "%!s(<nil>)"
	}
	switch e := n.(type) {
	case *AggregateExpr:
		s := e.Op.String()
		switch {
		case e.Without:
			s += " without (" + strings.Join(e.Grouping, ", ") + ") "
		case len(e.Grouping) > 0:
			s += " by (" + strings.Join(e.Grouping, ", ") + ") "
		}
		s += "("
		if e.Op.IsAggregatorWithParam() {
			s += c28Ref(e.Param, f) + ", "
		}
		return s + c28Ref(e.Expr, f) + ")"
	case *BinaryExpr:
		s := c28Ref(e.LHS, f) + " " + e.Op.String()
		if e.ReturnBool {
			s += " bool"
		}
		if vm := e.VectorMatching; vm != nil && (len(vm.MatchingLabels) > 0 || vm.On ||
			(f&c28FIgnEmpty == 0 && (vm.Card == CardManyToOne || vm.Card == CardOneToMany))) {
			if vm.On {
				s += " on ("
			} else {
				s += " ignoring ("
			}
			s += strings.Join(vm.MatchingLabels, ", ") + ")"
			if vm.Card == CardManyToOne {
				s += " group_left (" + strings.Join(vm.Include, ", ") + ")"
			} else if vm.Card == CardOneToMany {
				s += " group_right (" + strings.Join(vm.Include, ", ") + ")"
			}
		}
		return s + " " + c28Ref(e.RHS, f)
	case *Call:
		args := make([]string, len(e.Args))
		for i, a := range e.Args {
			args[i] = c28Ref(a, f)
		}
		return e.Func.Name + "(" + strings.Join(args, ", ") + ")"
	case *MatrixSelector:
		v := e.VectorSelector.(*VectorSelector)
		s := c28RefSel(v, f, false) + fmt.Sprintf("[%ds]", e.Range) + c28RefAt(v.Timestamp, v.StartOrEnd) + c28RefMulti(v.OriginalOffsetEx, f)
		if v.OriginalOffset != 0 {
			s += fmt.Sprintf(" offset %ds", v.OriginalOffset)
		}
		return s
	case *SubqueryExpr:
		s := c28Ref(e.Expr, f)
		if f&c28FSubq != 0 {
			s += fmt.Sprintf("[%d:%d]", e.Range, e.Step)
		} else if e.Step != 0 {
			s += fmt.Sprintf("[%ds:1s]", e.Range)
		} else {
			s += fmt.Sprintf("[%ds:]", e.Range)
		}
		s += c28RefAt(e.Timestamp, e.StartOrEnd)
		if e.OriginalOffset != 0 {
			if f&c28FSubq != 0 {
				s += fmt.Sprintf(" offset %d", e.OriginalOffset)
			} else {
				s += fmt.Sprintf(" offset %ds", e.OriginalOffset)
			}
		}
		return s
	case *NumberLiteral:
		if f&c28FPlusInf == 0 && math.IsInf(e.Val, 1) {
			return "Inf"
		}
		return fmt.Sprint(e.Val)
	case *ParenExpr:
		return "(" + c28Ref(e.Expr, f) + ")"
	case *StringLiteral:
		return fmt.Sprintf("%q", e.Val)
	case *UnaryExpr:
		return e.Op.String() + c28Ref(e.Expr, f)
	case *VectorSelector:
		return c28RefSel(e, f, true)
	case *StepInvariantExpr:
		return c28Ref(e.Expr, f)
	}
	return fmt.Sprintf("?%T", n)
}

// ---------------------------------------------------------------------------------
// round trip + attribution
// ---------------------------------------------------------------------------------

type c28Outcome struct {
	ok     bool
	sig    string // "reparse/<slug>" | "ast/<Type.Field>"
	detail string
}

var (
	c28ReQuoted = regexp.MustCompile(`"(\\.|[^"\\])*"|'(\\.|[^'\\])*'|U\+[0-9A-Fa-f]+`)
	c28ReNum    = regexp.MustCompile(`[0-9]+`)
	c28ReNonAl  = regexp.MustCompile(`[^A-Za-z]+`)
	c28RePos    = regexp.MustCompile(`^(\d+:\d+:|invalid position:) parse error: `)
)

func c28Slug(msg string) string {
	msg = c28RePos.ReplaceAllString(msg, "")
	msg = c28ReQuoted.ReplaceAllString(msg, " Q ")
	msg = c28ReNum.ReplaceAllString(msg, " N ")
	msg = strings.Trim(c28ReNonAl.ReplaceAllString(msg, "-"), "-")
	if len(msg) > 70 {
		msg = msg[:70]
	}
	return msg
}

func c28RoundTrip(orig Expr, text string) c28Outcome {
	e2, err := ParseExpr(text)
	if err != nil {
		return c28Outcome{sig: "reparse/" + c28Slug(err.Error()), detail: err.Error()}
	}
	if d := c28Diff(orig, e2); d != "" {
		return c28Outcome{sig: "ast/" + d, detail: "first difference at " + d + "; reparsed tree prints as " + c28SafeString(e2)}
	}
	return c28Outcome{ok: true}
}

func c28SafeString(e Expr) (s string) {
	defer func() {
		if p := recover(); p != nil {
			s = fmt.Sprintf("<String() panicked: %v>", p)
		}
	}()
	return e.String()
}

type c28Finding struct {
	Key     string         `json:"key"`
	What    string         `json:"what"`
	Witness map[string]any `json:"witness"`
}

// c28Judge decides one accepted expression.  printed is e.String().  Returns the
// findings (nil ⇒ round trip held).
func c28Judge(input string, e Expr, printed string) []c28Finding {
	o := c28RoundTrip(e, printed)
	if o.ok {
		return nil
	}
	wit := func(extra string) map[string]any {
		return map[string]any{"input": input, "printed": printed, "failure": o.detail, "attribution": extra}
	}
	ref0 := c28Ref(e, 0)
	base := c28RoundTrip(e, ref0)
	// only the defect emulations that change the text of this tree take part in the search
	var rel []c28Flags
	for _, f := range c28FlagList {
		if c28Ref(e, f) != ref0 {
			rel = append(rel, f)
		}
	}
	match, found := c28Flags(0), false
	for bits := 0; bits < 1<<len(rel); bits++ {
		s := c28Flags(0)
		for i, f := range rel {
			if bits&(1<<i) != 0 {
				s |= f
			}
		}
		if c28Ref(e, s) == printed {
			match, found = s, true
			break
		}
	}
	if found && match != 0 && base.ok {
		var out []c28Finding
		for _, f := range c28FlagList {
			if match&f == 0 {
				continue
			}
			if fo := c28RoundTrip(e, c28Ref(e, f)); !fo.ok {
				out = append(out, c28Finding{Key: c28FlagKeys[f], What: c28FlagWhat[f],
					Witness: wit("printed text equals the reference print with this defect emulated; the reference print without it (" + c28Ref(e, 0) + ") round-trips; alone it gives: " + fo.detail)})
			}
		}
		if len(out) == 0 {
			for _, f := range c28FlagList {
				if match&f != 0 {
					out = append(out, c28Finding{Key: c28FlagKeys[f], What: c28FlagWhat[f], Witness: wit("jointly with the other emulated defects")})
				}
			}
		}
		return out
	}
	sig, why := o.sig, "printed text is not explained by the reference printer with any emulated defect"
	if found && !base.ok {
		sig, why = base.sig, fmt.Sprintf("even the reference print %q does not round-trip: %s", c28Ref(e, 0), base.detail)
	}
	return []c28Finding{{Key: "C28/" + sig, What: "print→parse round trip failed: " + sig, Witness: wit(why)}}
}

var c28FlagWhat = map[c28Flags]string{
	c28FOffset: "VectorSelector.String prints `offset N` without a unit: the text does not parse",
	c28FSubq:   "SubqueryExpr prints `[R:S]` / `offset N` without units: the text does not parse",
	c28FMulti:  "`offset [a, b]` (OriginalOffsetEx) is not printed: the reparsed selector lost it",
	c28FNameless: "a selector without metric name prints no braces when no matcher is printed (`{}` → empty text) and drops `__name__=\"\"`",
	c28FIgnEmpty: "`ignoring () group_left/right (…)` prints no matching modifier at all: the cardinality is lost",
	c28FPlusInf:  "+Inf prints with its sign; before `^` or `[` the text parses as a unary plus around the whole operation",
}
