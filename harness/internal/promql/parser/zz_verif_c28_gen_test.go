//go:build verif

package parser

import (
	"math/rand/v2"
	"sort"
	"strconv"
	"strings"
)

// Grammar-directed generator of PromQL text (parse.y incl. the StatsHouse extensions:
// "@name" matchers, "name:$var" bindings, "offset [a, b]", "default", keywords as metric
// names and grouping labels, numeric label names).  It produces text, not ASTs, so that
// every lexical form (quotes, number formats, durations, comments, white space) is
// exercised.  A small share of the productions is deliberately invalid.

type c28Gen struct {
	rnd   *rand.Rand
	funcs []string
}

func c28NewGen(rnd *rand.Rand) *c28Gen {
	g := &c28Gen{rnd: rnd}
	for name := range Functions {
		g.funcs = append(g.funcs, name)
	}
	sort.Strings(g.funcs)
	return g
}

func (g *c28Gen) pick(ss ...string) string { return ss[g.rnd.IntN(len(ss))] }
func (g *c28Gen) chance(p float64) bool    { return g.rnd.Float64() < p }

// sp is token separating white space
func (g *c28Gen) sp() string {
	switch g.rnd.IntN(40) {
	case 0:
		return "  "
	case 1:
		return "\n"
	case 2:
		return "\t"
	case 3:
		return " # comment " + g.pick("", "sum(", "\"", "offset 5m") + "\n"
	case 4:
		return " \r\n "
	}
	return " "
}

// osp is optional white space between punctuation
func (g *c28Gen) osp() string {
	if g.chance(0.15) {
		return g.sp()
	}
	return ""
}

var c28MetricNames = []string{
	"m", "m", "m", "metric_1", "some:metric", ":rec", "a:b:c", "_x", "M9", "__name__",
	// keywords that metric_identifier accepts
	"sum", "avg", "count", "min", "max", "group", "stddev", "stdvar", "topk", "bottomk", "count_values",
	"quantile", "sort", "sort_desc", "drop_empty_series", "by", "without", "offset", "start", "end",
	"and", "or", "unless", "SUM", "Offset",
	// keywords it does not accept (invalid on purpose)
	"on", "bool", "default", "dbag", "atan2", "ignoring", "group_left", "inf", "nan",
}

var c28LabelNames = []string{"a", "b", "k", "j", "host", "__name__", "__what__", "__by__", "__bind__", "1", "2", "15", "on", "by", "sum", "offset", "bool", "_", "le", "key1", "0x1"}

var c28Durations = []string{
	"5m", "1m", "90s", "1s", "1h", "1h30m", "2d", "1w", "1y", "1y2w3d4h5m6s", "1500ms", "1s500ms", "100ms", "499ms", "500ms", "1ms",
	"30s", "3600s", "10m", "0s", "0ms", "5", "1h1h", "1m1h", "300000000y", "5x", "24h", "7d",
}

func (g *c28Gen) duration() string {
	if g.chance(0.6) {
		return c28Durations[g.rnd.IntN(10)]
	}
	if g.chance(0.15) {
		return strconv.Itoa(1+g.rnd.IntN(5000)) + g.pick("s", "m", "h", "d", "w", "ms")
	}
	return c28Durations[g.rnd.IntN(len(c28Durations))]
}

func (g *c28Gen) quoted(s string) string {
	switch g.rnd.IntN(6) {
	case 0:
		if !strings.ContainsAny(s, "'\\\n") {
			return "'" + s + "'"
		}
	case 1:
		if !strings.ContainsAny(s, "`") {
			return "`" + s + "`"
		}
	case 2:
		return strconv.QuoteToASCII(s)
	}
	return strconv.Quote(s)
}

var c28StringValues = []string{
	"b", "", "avg", "count", "sum", "min", "max", "countsec", "p99", "1", "1,2", "x.*", "y|z", "a b", " ", "a\"b", "a\\b", "a'b", "a`b",
	"line\nbreak", "tab\t", "\x00", "\x7f", "\xff", "\xc3", "é", "日本", "\u200b", "\ufeff", "\U0001F600", "\ufffd", "{}", "[", "(", "a(", "[a-", "(?i)x",
	" offset 300", "[3600:1]", "offset [1h]", "k:v", "$v", "__name__", "}", "#", "\\", "\\d+", "^a$", "a{2,3}", "\r", "'", "''", "\"\"",
}

func (g *c28Gen) stringLit() string {
	s := c28StringValues[g.rnd.IntN(len(c28StringValues))]
	if g.chance(0.1) {
		s += c28StringValues[g.rnd.IntN(len(c28StringValues))]
	}
	if g.chance(0.02) {
		// raw escapes the lexer has to walk through
		return g.pick(`"\x41\101A\U00000041"`, `"\a\b\f\n\r\t\v\\\""`, `'\''`, `"\xZZ"`, `"\u12"`, `"\ud800"`, `"\400"`, `"\q"`, `"abc`, `'abc`, "`abc", `"\`)
	}
	return g.quoted(s)
}

func (g *c28Gen) matcher() string {
	switch g.rnd.IntN(14) {
	case 0:
		return "@" + g.pick("what", "by", "bind", "name", "x") + g.osp() + g.pick("=", "=", "!=", "=~", "!~") + g.osp() + g.quoted(g.pick("avg", "count", "1", "1,2", "x.*"))
	case 1:
		return g.pick("k", "a", "1", "on") + g.pick(":", " : ", ":") + "$" + g.pick("v", "var1", "on", "sum", "1")
	case 2:
		return "__what__" + g.pick("=", "=~") + g.quoted(g.pick("avg", "count", "countsec", "sum", "min", "max", "p99", "unique", "cu_avg", "x"))
	case 3:
		return "__by__=" + g.quoted(g.pick("1", "1,2", "", "k", "_s"))
	case 4:
		return "__bind__=" + g.quoted(g.pick("a:b", "k:v"))
	case 5:
		return "__name__" + g.pick("=", "=~", "!=", "!~") + g.quoted(g.pick("m", "m.*", "x", ""))
	}
	name := c28LabelNames[g.rnd.IntN(len(c28LabelNames))]
	op := g.pick("=", "=", "=", "!=", "=~", "!~")
	if g.chance(0.01) {
		op = g.pick("==", "<", "=~~", "!")
	}
	val := g.stringLit()
	if g.chance(0.01) {
		val = g.pick("5", "b", "")
	}
	return name + g.osp() + op + g.osp() + val
}

func (g *c28Gen) matchers() string {
	n := g.rnd.IntN(4)
	if n == 0 {
		return "{" + g.osp() + "}"
	}
	var ms []string
	for i := 0; i < n; i++ {
		ms = append(ms, g.matcher())
	}
	s := "{" + g.osp() + strings.Join(ms, g.osp()+","+g.osp())
	if g.chance(0.08) {
		s += ","
	}
	return s + g.osp() + "}"
}

func (g *c28Gen) selector() string {
	switch g.rnd.IntN(10) {
	case 0, 1, 2, 3:
		return c28MetricNames[g.rnd.IntN(len(c28MetricNames))]
	case 4:
		return g.matchers()
	}
	return c28MetricNames[g.rnd.IntN(len(c28MetricNames))] + g.osp() + g.matchers()
}

func (g *c28Gen) number() string {
	switch g.rnd.IntN(24) {
	case 0:
		return g.pick("Inf", "inf", "INF", "+Inf", "-Inf")
	case 1:
		return g.pick("NaN", "nan", "-NaN")
	case 2:
		return g.pick("0x10", "0X1f", "017", "0", "00", "-0", "0.0", "-0.0")
	case 3:
		return g.pick("1e3", "1E3", "1e+3", "1e-7", "2.5e10", "1e21", "1e-320", "1e308", "1e309", "1.7976931348623157e308", "5e-324")
	case 4:
		return g.pick(".5", "5.", "0.1", "3.14159", "1e", "1.2.3", "0x", "1_000")
	case 5:
		return g.pick("9223372036854775807", "9223372036854775808", "18446744073709551616", "0x7fffffffffffffff", "0xffffffffffffffff", "4503599627370497", "9007199254740993")
	case 6:
		return strconv.FormatFloat(g.rnd.NormFloat64()*1e3, 'g', -1, 64)
	case 7:
		return strconv.FormatFloat(g.rnd.Float64(), 'f', 1+g.rnd.IntN(6), 64)
	case 8:
		return "-" + strconv.Itoa(g.rnd.IntN(100))
	}
	return strconv.Itoa(g.rnd.IntN(20))
}

func (g *c28Gen) offsetValue() string {
	if g.chance(0.25) {
		return "-" + g.osp() + g.duration()
	}
	return g.duration()
}

func (g *c28Gen) modifier() string {
	switch g.rnd.IntN(12) {
	case 0, 1, 2, 3:
		return "offset" + g.sp() + g.offsetValue()
	case 4, 5:
		n := 1 + g.rnd.IntN(3)
		var vs []string
		for i := 0; i < n; i++ {
			if i == 0 && g.chance(0.9) {
				vs = append(vs, g.duration()) // a leading "-" is a lexer error; kept rare
			} else {
				vs = append(vs, g.offsetValue())
			}
		}
		return "offset" + g.osp() + "[" + g.osp() + strings.Join(vs, g.osp()+","+g.sp()) + g.osp() + "]"
	case 6, 7:
		return "@" + g.osp() + g.pick("start()", "end()", "start ( )", "END()")
	case 8:
		return "@" + g.osp() + g.pick("100", "10.5", "-5", "+7", "0", "1.2345", "1.0005", "1700000000", "1700000000.123", "1e10", "1e15", "1e17", "1e19", "-1e17", "Inf", "NaN", "0x10", "9223372036854775", "9223372036854776")
	case 9:
		return "@" + g.osp() + g.number()
	}
	return "offset" + g.sp() + g.offsetValue()
}

func (g *c28Gen) mods() string {
	n := 0
	switch g.rnd.IntN(10) {
	case 0, 1, 2, 3:
		n = 1
	case 4:
		n = 2
	case 5:
		if g.chance(0.3) {
			n = 3
		}
	}
	s := ""
	for i := 0; i < n; i++ {
		s += g.sp() + g.modifier()
	}
	return s
}

func (g *c28Gen) rangeSel() string {
	return "[" + g.osp() + g.duration() + g.osp() + "]"
}

func (g *c28Gen) subqRange() string {
	s := "[" + g.osp() + g.duration() + g.osp() + ":"
	if g.chance(0.5) {
		s += g.osp() + g.duration()
	}
	return s + g.osp() + "]"
}

var c28AggOps = []string{"sum", "min", "max", "avg", "count", "group", "stddev", "stdvar", "sort", "sort_desc", "drop_empty_series", "dbag", "SUM", "Avg"}
var c28AggParamOps = []string{"topk", "bottomk", "quantile", "count_values"}
var c28BinOps = []string{"+", "-", "*", "/", "%", "^", "==", "!=", ">", "<", ">=", "<=", "and", "or", "unless", "default", "atan2", "AND", "Default"}

func (g *c28Gen) labelList() string {
	n := g.rnd.IntN(4)
	if n == 0 {
		return "(" + g.osp() + ")"
	}
	var ls []string
	for i := 0; i < n; i++ {
		if g.chance(0.03) {
			ls = append(ls, g.pick("a:b", "\"a\"", "1.5", "-", "$x"))
		} else {
			ls = append(ls, c28LabelNames[g.rnd.IntN(len(c28LabelNames))])
		}
	}
	s := "(" + g.osp() + strings.Join(ls, g.osp()+","+g.osp())
	if g.chance(0.08) {
		s += ","
	}
	return s + g.osp() + ")"
}

func (g *c28Gen) aggregate(d int) string {
	var op, args string
	if g.chance(0.3) {
		op = g.pick(c28AggParamOps...)
		param := g.number()
		if op == "count_values" || g.chance(0.1) {
			param = g.stringLit()
		}
		if g.chance(0.05) {
			param = g.expr(d - 1)
		}
		args = "(" + g.osp() + param + g.osp() + "," + g.osp() + g.expr(d-1) + g.osp() + ")"
		if g.chance(0.02) {
			args = "(" + g.expr(d-1) + ")"
		}
	} else {
		op = g.pick(c28AggOps...)
		args = "(" + g.osp() + g.expr(d-1) + g.osp() + ")"
		if g.chance(0.02) {
			args = g.pick("()", "(1, 2, 3)", "(m,)")
		}
	}
	switch g.rnd.IntN(5) {
	case 0, 1:
		return op + g.osp() + args
	case 2, 3:
		return op + g.sp() + g.pick("by", "without", "BY") + g.osp() + g.labelList() + g.osp() + args
	}
	return op + g.osp() + args + g.osp() + g.pick("by", "without") + g.osp() + g.labelList()
}

func (g *c28Gen) binModifier() string {
	s := ""
	if g.chance(0.15) {
		s += g.sp() + "bool"
	}
	if g.chance(0.4) {
		s += g.sp() + g.pick("on", "ignoring", "ON") + g.osp() + g.labelList()
		if g.chance(0.4) {
			s += g.sp() + g.pick("group_left", "group_right")
			if g.chance(0.6) {
				s += g.osp() + g.labelList()
			}
		}
	} else if g.chance(0.01) {
		s += g.sp() + "group_left (a)"
	}
	return s
}

func (g *c28Gen) call(d int) string {
	name := g.funcs[g.rnd.IntN(len(g.funcs))]
	if g.chance(0.01) {
		name = g.pick("nosuchfn", "Rate", "sum_over", "x")
	}
	f := Functions[name]
	n := 0
	if f != nil {
		n = len(f.ArgTypes)
		if f.Variadic != 0 && g.chance(0.5) {
			n--
		}
		if f.Variadic < 0 {
			n += g.rnd.IntN(3)
		}
	}
	if g.chance(0.05) {
		n = g.rnd.IntN(4)
	}
	var args []string
	for i := 0; i < n; i++ {
		var t ValueType
		if f != nil && len(f.ArgTypes) > 0 {
			t = f.ArgTypes[min(i, len(f.ArgTypes)-1)]
		}
		if g.chance(0.05) {
			t = ""
		}
		switch t {
		case ValueTypeMatrix:
			if g.chance(0.7) || d <= 1 {
				args = append(args, g.selector()+g.osp()+g.rangeSel()+g.mods())
			} else {
				args = append(args, g.subquery(d-1))
			}
		case ValueTypeScalar:
			args = append(args, g.number())
		case ValueTypeString:
			args = append(args, g.stringLit())
		default:
			args = append(args, g.expr(d-1))
		}
	}
	s := name + g.osp() + "(" + g.osp() + strings.Join(args, g.osp()+","+g.osp())
	if g.chance(0.01) {
		s += ","
	}
	return s + g.osp() + ")"
}

// subquery: the operand must not be a bare selector (that is a matrix selector whose
// step is dropped by the grammar — also generated, on purpose, with a small weight).
func (g *c28Gen) subquery(d int) string {
	var inner string
	switch g.rnd.IntN(6) {
	case 0:
		inner = g.selector()
	case 1:
		inner = g.call(d)
	case 2:
		inner = g.aggregate(d)
	case 3:
		inner = g.subquery(d-1) // nested
	default:
		inner = "(" + g.expr(d-1) + ")"
	}
	if d <= 0 {
		inner = "(" + g.selector() + ")"
	}
	return inner + g.osp() + g.subqRange() + g.mods()
}

func (g *c28Gen) expr(d int) string {
	if d <= 0 {
		switch g.rnd.IntN(8) {
		case 0:
			return g.number()
		case 1:
			if g.chance(0.3) {
				return g.stringLit()
			}
		}
		return g.selector() + g.mods()
	}
	switch g.rnd.IntN(20) {
	case 0, 1, 2:
		return g.selector() + g.mods()
	case 3, 4, 5:
		return g.aggregate(d)
	case 6, 7, 8, 9:
		return g.expr(d-1) + g.sp() + g.pick(c28BinOps...) + g.binModifier() + g.sp() + g.expr(d-1)
	case 10:
		return "(" + g.osp() + g.expr(d-1) + g.osp() + ")" + g.pick("", "", "", g.mods())
	case 11:
		return g.pick("-", "+", "- ", "--", "-+") + g.expr(d-1)
	case 12, 13, 14:
		return g.call(d)
	case 15, 16:
		return g.subquery(d)
	case 17:
		return g.selector() + g.osp() + g.rangeSel() + g.mods()
	case 18:
		return g.number()
	}
	return g.expr(d-1) + g.sp() + g.pick("*", "+", "^", "-") + g.sp() + g.number()
}

func (g *c28Gen) top() string {
	s := g.expr(1 + g.rnd.IntN(4))
	if g.chance(0.05) {
		s = g.sp() + s + g.sp()
	}
	return s
}

// ---- mutated / random strings (run in the child process) ----

var c28Tokens = []string{
	"(", ")", "{", "}", "[", "]", ",", ":", "@", "$", "=", "==", "!=", "=~", "!~", "<", ">", "<=", ">=", "+", "-", "*", "/", "%", "^", "!", "~",
	"and", "or", "unless", "default", "atan2", "sum", "avg", "count", "min", "max", "group", "stddev", "stdvar", "topk", "bottomk", "count_values",
	"quantile", "sort", "sort_desc", "drop_empty_series", "dbag", "offset", "by", "without", "on", "ignoring", "group_left", "group_right", "bool",
	"start", "end", "start()", "end()", "inf", "nan", "m", "rate", "sum_over_time", "abs", "time", "a", "k", "5m", "1h", "1s", "100ms", "0s", "1y",
	"1", "0", "2.5", "1e3", "0x", "0x1f", ".", "..", "e", "\"", "'", "`", "\\", "\"a\"", "'b'", "`c`", "\"\\", "#", "#\n", "\n", "\t", " ", "  ",
	"\x00", "\xff", "\xc3\x28", "é", "日本", "\u200b", "\ufeff", ";", "_", "x", "<-", "|", "&", "?", "[5m]", "[5m:]", "[5m:1m]", "offset [", "{a=\"b\"}", "__name__",
}

func (g *c28Gen) tokenSoup() string {
	n := 1 + g.rnd.IntN(12)
	var sb strings.Builder
	for i := 0; i < n; i++ {
		sb.WriteString(c28Tokens[g.rnd.IntN(len(c28Tokens))])
		if g.chance(0.6) {
			sb.WriteByte(' ')
		}
	}
	return sb.String()
}

func (g *c28Gen) randomBytes() string {
	n := g.rnd.IntN(24)
	b := make([]byte, n)
	for i := range b {
		if g.chance(0.7) {
			b[i] = byte(0x20 + g.rnd.IntN(0x5f))
		} else {
			b[i] = byte(g.rnd.IntN(256))
		}
	}
	return string(b)
}

func (g *c28Gen) mutate(s string) string {
	b := []byte(s)
	n := 1 + g.rnd.IntN(3)
	for i := 0; i < n; i++ {
		switch g.rnd.IntN(9) {
		case 0: // delete a range
			if len(b) > 0 {
				p := g.rnd.IntN(len(b))
				q := min(len(b), p+1+g.rnd.IntN(4))
				b = append(b[:p:p], b[q:]...)
			}
		case 1: // insert a token
			p := g.rnd.IntN(len(b) + 1)
			t := c28Tokens[g.rnd.IntN(len(c28Tokens))]
			b = append(b[:p:p], append([]byte(t), b[p:]...)...)
		case 2: // replace a byte
			if len(b) > 0 {
				b[g.rnd.IntN(len(b))] = byte(g.rnd.IntN(256))
			}
		case 3: // duplicate a slice
			if len(b) > 1 {
				p := g.rnd.IntN(len(b))
				q := min(len(b), p+1+g.rnd.IntN(8))
				b = append(b[:q:q], append(append([]byte(nil), b[p:q]...), b[q:]...)...)
			}
		case 4: // truncate
			if len(b) > 0 {
				b = b[:g.rnd.IntN(len(b))]
			}
		case 5: // swap two bytes
			if len(b) > 1 {
				p, q := g.rnd.IntN(len(b)), g.rnd.IntN(len(b))
				b[p], b[q] = b[q], b[p]
			}
		case 6: // splice the head of another expression
			o := g.expr(1)
			p := g.rnd.IntN(len(b) + 1)
			b = append(b[:p:p], o...)
		case 7: // repeat a token many times
			t := c28Tokens[g.rnd.IntN(len(c28Tokens))]
			p := g.rnd.IntN(len(b) + 1)
			rep := strings.Repeat(t, 2+g.rnd.IntN(40))
			b = append(b[:p:p], append([]byte(rep), b[p:]...)...)
		case 8: // drop one closing bracket / quote
			for j := len(b) - 1; j >= 0; j-- {
				if strings.IndexByte(")]}\"'`", b[j]) >= 0 {
					b = append(b[:j:j], b[j+1:]...)
					break
				}
			}
		}
	}
	return string(b)
}

// hostileInput: one input of the child's case list.
func (g *c28Gen) hostileInput() (string, string) {
	switch g.rnd.IntN(10) {
	case 0, 1:
		return g.tokenSoup(), "token-soup"
	case 2:
		return g.randomBytes(), "random-bytes"
	case 3:
		return g.top(), "grammar"
	}
	return g.mutate(g.top()), "mutated"
}

// c28Pathological: deterministic deep / long inputs (stack depth, quadratic paths).
func c28Pathological(n int) []string {
	rep := strings.Repeat
	return []string{
		rep("(", n) + "m" + rep(")", n),
		rep("(", n) + "m",
		"m" + rep(")", n),
		rep("-", n) + "m",
		rep("-", n) + "1",
		"(m)" + rep("[5m:]", n),
		"(m)" + rep("[5m:] offset 1m", n),
		"1" + rep("+1", n),
		"m" + rep(" ^ m", n),
		"m" + rep(" and on (a) m", n),
		rep("sum(", n) + "m" + rep(")", n),
		rep("abs(", n) + "m" + rep(")", n),
		rep("topk(1,", n) + "m" + rep(")", n),
		rep("{", n),
		rep("[", n),
		"\"" + rep("\\", n),
		"\"" + rep("\\\\", n) + "\"",
		"m{" + rep("a=\"b\",", n) + "}",
		"m offset [" + rep("1h,", n) + "1h]",
		"m" + rep(" offset [1h]", n),
		"sum by (" + rep("a,", n) + "a) (m)",
		"m + on (" + rep("a,", n) + "a) group_left (" + rep("b,", n) + ") m",
		"abs(" + rep("m,", n) + "m)",
		"m @ " + rep("9", n),
		"m[" + rep("9", n) + "s]",
		"m[" + rep("1s", n) + "]",
		rep("1", n),
		"0x" + rep("f", n),
		"1e" + rep("9", n),
		rep("a", n),
		rep(":", n),
		rep("#", n) + "\nm",
		rep("# c\n", n) + "m",
		rep(" ", n) + "m" + rep("\n", n),
		"m{a=~\"" + rep("(", n) + "\"}",
		"m{a=~\"" + rep("(a|", min(n, 2000)) + "b" + rep(")", min(n, 2000)) + "\"}",
		rep("m[5m] @ start() ", n),
		"m" + rep(" @ 1", n),
	}
}
