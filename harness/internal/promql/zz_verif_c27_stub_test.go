//go:build verif

package promql

import (
	"context"
	"fmt"
	"math"
	"math/rand/v2"
	"sort"
	"sync"

	"github.com/VKCOM/statshouse/internal/data_model"
	"github.com/VKCOM/statshouse/internal/format"
)

// ---------------------------------------------------------------------------------
// Fixture: an in-memory "storage" of raw rows and a promql.Handler on top of it that
// answers SeriesQuery the way internal/api's requestHandler.QuerySeries does:
//   * the time axis is Timescale.GetLODs(metric, offset); slot i of a LOD covers
//     [FromSec+i*StepSec, FromSec+(i+1)*StepSec) and lands at Time[tx+i];
//   * rows of a slot are merged per distinct value of the GroupBy tags (SQL GROUP BY):
//     count/sum/sumsquare add up, min/max combine (tsValues.merge);
//   * one output series per (what, tag set); its value is tsValues.value(digest,
//     queryStep, lodStep) with queryStep = SeriesQuery.Range if set, else Timescale.Step,
//     else the LOD step (copyRowValuesAt), NaN/Inf replaced as replaceInfNan does;
//   * slots without rows hold NilValue;
//   * tags of a series: one SeriesTag per GroupBy index below len(metric.Tags) (also for
//     the value 0 = unset), `__what__` only if several whats were asked or TagWhat;
//   * FilterIn / FilterNotIn select rows by mapped tag value (writeTagFilter); a positive
//     regexp filter that matched no tag value selects nothing.
// Tag value ids map to strings as "v<id>", 0 to "" (format.CodeTagValue(0)).
// ---------------------------------------------------------------------------------

const c27NTags = 4 // env(0) k(1) j(2) h(3)

type c27Row struct {
	tag              [c27NTags]int32
	t                int64
	cnt, sum, mn, mx float64
	sumsq            float64
}

type c27Agg struct {
	cnt, sum, mn, mx, sumsq float64
	set                     bool
}

func (a *c27Agg) add(r *c27Row) {
	if !a.set {
		*a = c27Agg{cnt: r.cnt, sum: r.sum, mn: r.mn, mx: r.mx, sumsq: r.sumsq, set: true}
		return
	}
	a.cnt += r.cnt
	a.sum += r.sum
	a.sumsq += r.sumsq
	if r.mn < a.mn {
		a.mn = r.mn
	}
	if a.mx < r.mx {
		a.mx = r.mx
	}
}

type c27TagKey [c27NTags]int32 // -1 at positions that are not grouped

type c27Store struct {
	metrics map[string]*format.MetricMetaValue
	rows    map[int32][]c27Row // metric id -> rows sorted by t
	now     int64
}

func c27MulDiv(v float64, mul, div int64) float64 {
	if mul%div == 0 {
		return v * float64(mul/div)
	}
	return v * float64(mul) / float64(div)
}

// c27Value mirrors api.tsValues.value for the digests the fixture supports.
func c27Value(a *c27Agg, what DigestWhat, queryStep, lodStep int64) float64 {
	var val float64
	switch what {
	case DigestCount:
		val = c27MulDiv(a.cnt, queryStep, lodStep)
	case DigestCountSec:
		val = a.cnt / float64(lodStep)
	case DigestCountRaw:
		val = a.cnt
	case DigestSum:
		val = c27MulDiv(a.sum, queryStep, lodStep)
	case DigestSumSec:
		val = a.sum / float64(lodStep)
	case DigestSumRaw:
		val = a.sum
	case DigestAvg:
		val = a.sum / a.cnt
	case DigestMin:
		val = a.mn
	case DigestMax:
		val = a.mx
	case DigestStdDev:
		if a.cnt < 2 {
			val = 0
		} else {
			val = math.Sqrt(math.Max((a.sumsq-math.Pow(a.sum, 2)/a.cnt)/(a.cnt-1), 0))
		}
	case DigestStdVar:
		if a.cnt < 2 {
			val = 0
		} else {
			val = math.Max((a.sumsq-math.Pow(a.sum, 2)/a.cnt)/(a.cnt-1), 0)
		}
	default:
		panic(fmt.Sprintf("c27 fixture: digest %v not supported", what))
	}
	switch {
	case math.IsNaN(val):
		val = -1.111111
	case math.IsInf(val, 1):
		val = -2.222222
	case math.IsInf(val, -1):
		val = -3.333333
	}
	return val
}

type c27Filter struct {
	in, notIn [c27NTags]map[int32]bool
}

func (f *c27Filter) pass(r *c27Row) bool {
	for i := 0; i < c27NTags; i++ {
		if f.in[i] != nil && !f.in[i][r.tag[i]] {
			return false
		}
		if f.notIn[i] != nil && f.notIn[i][r.tag[i]] {
			return false
		}
	}
	return true
}

// slots merges the rows of [from, from+n*step) per slot and per value of the grouped tags.
func (s *c27Store) slots(metricID int32, from, step int64, n int, grouped [c27NTags]bool, f *c27Filter) map[c27TagKey][]c27Agg {
	rows := s.rows[metricID]
	lo := sort.Search(len(rows), func(i int) bool { return rows[i].t >= from })
	res := map[c27TagKey][]c27Agg{}
	to := from + step*int64(n)
	for i := lo; i < len(rows) && rows[i].t < to; i++ {
		r := &rows[i]
		if f != nil && !f.pass(r) {
			continue
		}
		var k c27TagKey
		for x := 0; x < c27NTags; x++ {
			if grouped[x] {
				k[x] = r.tag[x]
			} else {
				k[x] = -1
			}
		}
		g := res[k]
		if g == nil {
			g = make([]c27Agg, n)
			res[k] = g
		}
		g[(r.t-from)/step].add(r)
	}
	return res
}

func c27TagString(v int32) string {
	if v == 0 {
		return ""
	}
	return fmt.Sprintf("v%d", v)
}

type c27Handler struct {
	st      *c27Store
	mu      sync.Mutex
	queries []c27QueryLog
}

type c27QueryLog struct {
	Metric  string
	Whats   []string
	GroupBy []int
	Range   int64
	Step    int64
	LODs    []int64
}

func (h *c27Handler) GetHostName(int32) string   { return "" }
func (h *c27Handler) GetHostName64(int64) string { return "" }
func (h *c27Handler) GetTagValue(q TagValueQuery) string {
	return c27TagString(int32(q.TagValueID))
}
func (h *c27Handler) GetTagValueID(TagValueIDQuery) (int64, error) { return 0, ErrNotFound }
func (h *c27Handler) GetTagFilter(_ *format.MetricMetaValue, _ int, v string) (data_model.TagValue, error) {
	if v == "" {
		return data_model.NewTagValue("", 0), nil
	}
	var id int64
	if _, err := fmt.Sscanf(v, "v%d", &id); err != nil {
		// an unknown string maps to an id no row carries
		return data_model.NewTagValue(v, 1_000_000), nil
	}
	return data_model.NewTagValue(v, id), nil
}
func (h *c27Handler) MatchMetrics(f *data_model.QueryFilter) error {
	f.MatchMetrics(h.st.metrics)
	return nil
}
func (h *c27Handler) QueryTagValueIDs(_ context.Context, q TagValuesQuery) ([]int64, error) {
	seen := map[int64]bool{}
	x := int(q.Tag.Index)
	if x < 0 || x >= c27NTags {
		return nil, nil
	}
	for _, r := range h.st.rows[q.Metric.MetricID] {
		seen[int64(r.tag[x])] = true
	}
	var res []int64
	for v := range seen {
		res = append(res, v)
	}
	sort.Slice(res, func(i, j int) bool { return res[i] < res[j] })
	return res, nil
}
func (h *c27Handler) Alloc(n int) *[]float64 { s := make([]float64, n); return &s }
func (h *c27Handler) Free(*[]float64)        {}
func (h *c27Handler) Tracef(string, ...any)  {}

func (h *c27Handler) QuerySeries(_ context.Context, q *SeriesQuery) (Series, func(), error) {
	var grouped [c27NTags]bool
	for _, x := range q.GroupBy {
		if 0 <= x && x < c27NTags {
			grouped[x] = true
		}
	}
	var flt c27Filter
	for x := 0; x < c27NTags; x++ {
		// a positive filter without mapped values (a regexp no tag value matches) selects nothing:
		// the SQL is "(0!=0 OR match(<string column>, re))" and the fixture has no unmapped strings
		if vs := q.FilterIn.Tags[x].Values; len(vs) != 0 || q.FilterIn.Tags[x].Re2 != "" {
			flt.in[x] = map[int32]bool{}
			for _, v := range vs {
				flt.in[x][int32(v.Mapped)] = true
			}
		}
		if vs := q.FilterNotIn.Tags[x].Values; len(vs) != 0 {
			flt.notIn[x] = map[int32]bool{}
			for _, v := range vs {
				flt.notIn[x][int32(v.Mapped)] = true
			}
		}
	}
	var qstep int64
	if q.Range != 0 {
		qstep = q.Range
	} else {
		qstep = q.Timescale.Step
	}
	lods := q.Timescale.GetLODs(q.Metric, q.Offset)
	lg := c27QueryLog{Metric: q.Metric.Name, GroupBy: append([]int(nil), q.GroupBy...), Range: q.Range, Step: q.Timescale.Step}
	for _, l := range lods {
		lg.LODs = append(lg.LODs, l.StepSec)
	}
	whats := append([]SelectorWhat(nil), q.Whats...)
	sort.SliceStable(whats, func(i, j int) bool { return whats[i].Digest < whats[j].Digest })
	for _, w := range whats {
		lg.Whats = append(lg.Whats, w.Digest.String())
	}
	h.mu.Lock()
	h.queries = append(h.queries, lg)
	h.mu.Unlock()

	res := Series{Meta: SeriesMeta{Metric: q.Metric}}
	nT := len(q.Timescale.Time)
	tagWhat := len(q.Whats) > 1 || q.Options.TagWhat
	for _, what := range whats {
		index := map[c27TagKey]int{}
		tx := 0
		for _, lod := range lods {
			n := int((lod.ToSec - lod.FromSec) / lod.StepSec)
			groups := h.st.slots(q.Metric.MetricID, lod.FromSec, lod.StepSec, n, grouped, &flt)
			keys := make([]c27TagKey, 0, len(groups))
			for k := range groups {
				keys = append(keys, k)
			}
			sort.Slice(keys, func(i, j int) bool {
				for x := 0; x < c27NTags; x++ {
					if keys[i][x] != keys[j][x] {
						return keys[i][x] < keys[j][x]
					}
				}
				return false
			})
			for _, k := range keys {
				x, ok := index[k]
				if !ok {
					x = len(res.Data)
					index[k] = x
					v := make([]float64, nT)
					for i := range v {
						v[i] = NilValue
					}
					res.Data = append(res.Data, SeriesData{Values: &v, What: what})
					for tg := 0; tg < c27NTags; tg++ {
						if grouped[tg] && tg < len(q.Metric.Tags) {
							st := &SeriesTag{Metric: q.Metric, Index: tg + SeriesTagIndexOffset, ID: format.TagID(tg), Name: q.Metric.Tags[tg].Name, Value: int64(k[tg])}
							res.AddTagAt(x, st)
						}
					}
					if tagWhat {
						res.AddTagAt(x, &SeriesTag{ID: LabelWhat, Value: int64(what.Digest)})
					}
				}
				vals := *res.Data[x].Values
				for i, a := range groups[k] {
					if a.set && tx+i < nT {
						qs := qstep
						if qs == 0 {
							qs = lod.StepSec
						}
						vals[tx+i] = c27Value(&a, what.Digest, qs, lod.StepSec)
					}
				}
			}
			tx += n
		}
	}
	res.Meta.Total = len(res.Data)
	return res, func() {}, nil
}

// ---------------------------------------------------------------------------------
// data generation
// ---------------------------------------------------------------------------------

type c27DataSpec struct {
	Step     int64 // grid step = LOD step
	QStep    int64 // Query.Step: Step, or 0 (auto), or a multiple of Step that is not a LOD level
	Start    int64 // query start (aligned to 60)
	End      int64
	Now      int64
	History  int64 // seconds of data before Start
	NK, NJ   int
	NH       int
	GapP     float64 // probability that a series has no row in a slot
	UnsetJ   bool    // some rows have tag j unset (0)
	EqualCnt bool    // every row has count 1
	Big      float64 // != 0: every value is Big + a spread of a few units (counters, byte sizes, timestamps)
}

func c27GenStore(rnd *rand.Rand, sp c27DataSpec) *c27Store {
	mv := &format.MetricMetaValue{MetricID: 1, Name: "m", Kind: format.MetricKindValue,
		Tags: []format.MetricMetaTag{{}, {Name: "k"}, {Name: "j"}, {Name: "h"}}}
	_ = mv.RestoreCachedInfo()
	mc := &format.MetricMetaValue{MetricID: 2, Name: "c", Kind: format.MetricKindCounter,
		Tags: []format.MetricMetaTag{{}, {Name: "k"}, {Name: "j"}, {Name: "h"}}}
	_ = mc.RestoreCachedInfo()
	st := &c27Store{metrics: map[string]*format.MetricMetaValue{"m": mv, "c": mc}, rows: map[int32][]c27Row{}, now: sp.Now}
	type ser struct {
		tag      [c27NTags]int32
		from, to int64   // alive interval
		gapFrom  int64   // one long gap
		gapLen   int64
		base     float64 // level, multiples of 0.25
	}
	var sers []ser
	for k := 1; k <= sp.NK; k++ {
		for j := 1; j <= sp.NJ; j++ {
			for hh := 1; hh <= sp.NH; hh++ {
				if rnd.IntN(6) == 0 && len(sers) > 2 {
					continue // sparse cube
				}
				s := ser{tag: [c27NTags]int32{0, int32(k), int32(j), int32(hh)}, from: sp.Start - sp.History, to: sp.End}
				if sp.UnsetJ && rnd.IntN(4) == 0 {
					s.tag[2] = 0
				}
				span := sp.End - sp.Start
				switch rnd.IntN(6) {
				case 0:
					s.from = sp.Start + rnd.Int64N(span)
				case 1:
					s.to = sp.Start + rnd.Int64N(span)
				}
				s.gapFrom = sp.Start - sp.History/2 + rnd.Int64N(span+sp.History/2)
				s.gapLen = sp.Step * int64(rnd.IntN(8))
				s.base = float64(rnd.IntN(400)-100) / 4
				if sp.Big != 0 {
					s.base = sp.Big + float64(rnd.IntN(5))
				}
				sers = append(sers, s)
			}
		}
	}
	for _, mid := range []int32{1, 2} {
		var rows []c27Row
		for t0 := (sp.Start - sp.History) / sp.Step * sp.Step; t0 < sp.End; t0 += sp.Step {
			slotGap := rnd.Float64() < 0.03 // a slot-wide hole for every series
			for si := range sers {
				s := &sers[si]
				if t0 < s.from || t0 >= s.to || (t0 >= s.gapFrom && t0 < s.gapFrom+s.gapLen) || slotGap {
					continue
				}
				if rnd.Float64() < sp.GapP {
					continue
				}
				nrows := 1 + rnd.IntN(3)
				for ri := 0; ri < nrows; ri++ {
					n := 1
					if !sp.EqualCnt {
						n = 1 + rnd.IntN(4)
					}
					r := c27Row{tag: s.tag, t: t0 + rnd.Int64N(sp.Step), cnt: float64(n)}
					if mid == 1 {
						for i := 0; i < n; i++ {
							v := s.base + float64(rnd.IntN(81)-40)/4
							if sp.Big != 0 {
								v = s.base + float64(rnd.IntN(21))/4 // spread 0..5
							}
							r.sum += v
							r.sumsq += v * v
							if i == 0 || v < r.mn {
								r.mn = v
							}
							if i == 0 || v > r.mx {
								r.mx = v
							}
						}
					}
					rows = append(rows, r)
				}
			}
		}
		sort.SliceStable(rows, func(a, b int) bool { return rows[a].t < rows[b].t })
		st.rows[mid] = rows
	}
	return st
}
