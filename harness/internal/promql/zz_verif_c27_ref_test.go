//go:build verif

package promql

import (
	"fmt"
	"math"
	"regexp"
	"sort"
	"strings"
)

// ---------------------------------------------------------------------------------
// Expression model: every generated expression is a small tree that can print itself as
// PromQL text and evaluate itself with the independent reference evaluator (operator
// definitions written from the Prometheus documentation, missing points excluded).
// The reference works on the raw rows of the fixture; NaN in a reference value means
// "no present point — not judged".
// ---------------------------------------------------------------------------------

type c27RefCtx struct {
	st   *c27Store
	grid  []int64 // extended grid (history + visible), spacing step
	step  int64
	qstep int64 // Timescale.Step the engine asks the storage with (0: the LOD step)
}

type c27RefSeries struct {
	labels map[string]string // empty values dropped
	vals   []float64         // over ctx.grid
}

func c27LabelKey(l map[string]string) string {
	ks := make([]string, 0, len(l))
	for k, v := range l {
		if k == "__name__" || v == "" {
			continue
		}
		ks = append(ks, k+"="+v)
	}
	sort.Strings(ks)
	return strings.Join(ks, ",")
}

type c27Node interface {
	text() string
	eval(ctx *c27RefCtx) []c27RefSeries
}

// ---- selector

type c27Matcher struct {
	tag   string // k j h
	op    string // = != =~ !~
	value string
}

type c27Sel struct {
	metric   string
	what     string   // "" = default digest of the metric kind
	by       []string // __by__ list; nil = not given (all tags)
	byGiven  bool
	matchers []c27Matcher
	offset   int64
}

var c27TagIndex = map[string]int{"0": 0, "k": 1, "j": 2, "h": 3}
var c27TagNames = [c27NTags]string{"0", "k", "j", "h"}

func (s *c27Sel) text() string {
	var ms []string
	for _, m := range s.matchers {
		ms = append(ms, fmt.Sprintf("%s%s%q", m.tag, m.op, m.value))
	}
	if s.what != "" {
		ms = append(ms, fmt.Sprintf("__what__=%q", s.what))
	}
	if s.byGiven {
		ms = append(ms, fmt.Sprintf("__by__=%q", strings.Join(s.by, ",")))
	}
	t := s.metric
	if len(ms) != 0 {
		t += "{" + strings.Join(ms, ",") + "}"
	}
	if s.offset != 0 {
		t += fmt.Sprintf(" offset %ds", s.offset)
	}
	return t
}

func (s *c27Sel) digest(st *c27Store) DigestWhat {
	if s.what == "" {
		if st.metrics[s.metric].Kind == "counter" {
			return DigestCount
		}
		return DigestAvg
	}
	d, _, ok := parseSelectorWhat(s.what)
	if !ok {
		panic("c27: bad what " + s.what)
	}
	return d
}

func (s *c27Sel) eval(ctx *c27RefCtx) []c27RefSeries {
	m := ctx.st.metrics[s.metric]
	var grouped [c27NTags]bool
	if s.byGiven {
		for _, n := range s.by {
			grouped[c27TagIndex[n]] = true
		}
	} else {
		for i := range grouped {
			grouped[i] = true
		}
	}
	d := s.digest(ctx.st)
	type acc struct {
		tags [c27NTags]int32
		a    []c27Agg
	}
	groups := map[c27TagKey]*acc{}
	g0 := ctx.grid[0]
	n := len(ctx.grid)
rows:
	for i := range ctx.st.rows[m.MetricID] {
		r := &ctx.st.rows[m.MetricID][i]
		t := r.t + s.offset // a row at time t is seen at t+offset
		if t < g0 || t >= g0+int64(n)*ctx.step {
			continue
		}
		for _, mt := range s.matchers {
			v := c27TagString(r.tag[c27TagIndex[mt.tag]])
			var ok bool
			switch mt.op {
			case "=":
				ok = v == mt.value
			case "!=":
				ok = v != mt.value
			case "=~":
				ok = regexp.MustCompile("^(?:" + mt.value + ")$").MatchString(v)
			case "!~":
				ok = !regexp.MustCompile("^(?:" + mt.value + ")$").MatchString(v)
			}
			if !ok {
				continue rows
			}
		}
		var k c27TagKey
		for x := 0; x < c27NTags; x++ {
			if grouped[x] {
				k[x] = r.tag[x]
			} else {
				k[x] = -1
			}
		}
		g := groups[k]
		if g == nil {
			g = &acc{tags: k, a: make([]c27Agg, n)}
			groups[k] = g
		}
		g.a[(t-g0)/ctx.step].add(r)
	}
	var res []c27RefSeries
	for _, g := range groups {
		sr := c27RefSeries{labels: map[string]string{}, vals: make([]float64, n)}
		for x := 0; x < c27NTags; x++ {
			if grouped[x] {
				if v := c27TagString(g.tags[x]); v != "" {
					sr.labels[c27TagNames[x]] = v
				}
			}
		}
		for i := range g.a {
			if g.a[i].set {
				// the engine asks with Range == 0 here: queryStep = Timescale.Step
				qs := ctx.qstep
				if qs == 0 {
					qs = ctx.step
				}
				sr.vals[i] = c27Value(&g.a[i], d, qs, ctx.step)
			} else {
				sr.vals[i] = math.NaN()
			}
		}
		res = append(res, sr)
	}
	return res
}

// ---- value-preserving wrappers that keep reduction rules from matching

type c27Wrap struct {
	kind  string // "sub0" "mul1" "abs" "paren" "neg"
	inner c27Node
}

func (w *c27Wrap) text() string {
	switch w.kind {
	case "sub0":
		return w.inner.text() + " - 0"
	case "mul1":
		return "1 * " + w.inner.text()
	case "abs":
		return "abs(" + w.inner.text() + ")"
	case "neg":
		return "-" + w.inner.text()
	}
	return "(" + w.inner.text() + ")"
}

func (w *c27Wrap) eval(ctx *c27RefCtx) []c27RefSeries {
	in := w.inner.eval(ctx)
	for i := range in {
		for j, v := range in[i].vals {
			switch w.kind {
			case "abs":
				in[i].vals[j] = math.Abs(v)
			case "neg":
				in[i].vals[j] = -v
			}
		}
	}
	return in
}

// ---- over-time functions: points in (t-R, t]

type c27OverTime struct {
	fn       string
	phi      float64 // quantile_over_time
	rng      int64
	inner    c27Node // selector, or any node when subquery
	subquery bool
}

func (o *c27OverTime) text() string {
	arg := o.inner.text()
	if o.subquery {
		if _, isSel := o.inner.(*c27Sel); isSel {
			arg = "(" + arg + ")"
		}
		arg += fmt.Sprintf("[%ds:]", o.rng)
	} else {
		// range goes before the offset modifier
		if s, ok := o.inner.(*c27Sel); ok && s.offset != 0 {
			c := *s
			c.offset = 0
			arg = c.text() + fmt.Sprintf("[%ds] offset %ds", o.rng, s.offset)
		} else {
			arg += fmt.Sprintf("[%ds]", o.rng)
		}
	}
	if o.fn == "quantile_over_time" {
		return fmt.Sprintf("%s(%s, %s)", o.fn, c27Num(o.phi), arg)
	}
	return fmt.Sprintf("%s(%s)", o.fn, arg)
}

func c27Num(v float64) string {
	return strings.TrimSuffix(strings.TrimRight(fmt.Sprintf("%.4f", v), "0"), ".")
}

func c27Quantile(phi float64, vs []float64) float64 {
	if math.IsNaN(phi) {
		return math.NaN()
	}
	if phi < 0 {
		return math.Inf(-1)
	}
	if phi > 1 {
		return math.Inf(1)
	}
	s := append([]float64(nil), vs...)
	sort.Float64s(s)
	n := float64(len(s))
	rank := phi * (n - 1)
	lo := math.Max(0, math.Floor(rank))
	hi := math.Min(n-1, lo+1)
	w := rank - math.Floor(rank)
	return s[int(lo)]*(1-w) + s[int(hi)]*w
}

func c27StdVar(vs []float64) float64 {
	var mean float64
	for _, v := range vs {
		mean += v
	}
	mean /= float64(len(vs))
	var acc float64
	for _, v := range vs {
		acc += (v - mean) * (v - mean)
	}
	return acc / float64(len(vs))
}

func (o *c27OverTime) eval(ctx *c27RefCtx) []c27RefSeries {
	in := o.inner.eval(ctx)
	w := int(o.rng / ctx.step)
	for i := range in {
		src := in[i].vals
		dst := make([]float64, len(src))
		for t := range src {
			if t-w+1 < 0 {
				dst[t] = math.NaN() // window not inside the data
				continue
			}
			var vs []float64
			for x := t - w + 1; x <= t; x++ {
				if !math.IsNaN(src[x]) {
					vs = append(vs, src[x])
				}
			}
			if len(vs) == 0 {
				dst[t] = math.NaN()
				continue
			}
			switch o.fn {
			case "sum_over_time":
				var s float64
				for _, v := range vs {
					s += v
				}
				dst[t] = s
			case "avg_over_time":
				var s float64
				for _, v := range vs {
					s += v
				}
				dst[t] = s / float64(len(vs))
			case "min_over_time":
				m := vs[0]
				for _, v := range vs {
					m = math.Min(m, v)
				}
				dst[t] = m
			case "max_over_time":
				m := vs[0]
				for _, v := range vs {
					m = math.Max(m, v)
				}
				dst[t] = m
			case "count_over_time":
				dst[t] = float64(len(vs))
			case "stdvar_over_time":
				dst[t] = c27StdVar(vs)
			case "stddev_over_time":
				dst[t] = math.Sqrt(c27StdVar(vs))
			case "last_over_time":
				dst[t] = vs[len(vs)-1]
			case "present_over_time":
				dst[t] = 1
			case "quantile_over_time":
				dst[t] = c27Quantile(o.phi, vs)
			default:
				panic("c27: unknown over-time function " + o.fn)
			}
		}
		in[i].vals = dst
	}
	return in
}

// ---- aggregation operators

type c27AggNode struct {
	op      string
	param   float64
	without bool
	group   []string // nil = no modifier
	grouped bool
	inner   c27Node
	// set by eval for topk/bottomk: groups where the choice is not unique
	ties int
}

func (a *c27AggNode) text() string {
	s := a.op
	if a.grouped {
		if a.without {
			s += " without (" + strings.Join(a.group, ", ") + ")"
		} else {
			s += " by (" + strings.Join(a.group, ", ") + ")"
		}
	}
	s += " ("
	if a.op == "quantile" || a.op == "topk" || a.op == "bottomk" {
		s += c27Num(a.param) + ", "
	}
	return s + a.inner.text() + ")"
}

// a grouping label may be a tag name or a tag id ("1" is k)
var c27TagIDToName = map[string]string{"1": "k", "2": "j", "3": "h"}

func c27CanonTag(n string) string {
	if v, ok := c27TagIDToName[n]; ok {
		return v
	}
	return n
}

func (a *c27AggNode) groupLabels(l map[string]string) map[string]string {
	res := map[string]string{}
	if a.without {
	outer:
		for k, v := range l {
			for _, g := range a.group {
				if c27CanonTag(g) == k {
					continue outer
				}
			}
			res[k] = v
		}
		return res
	}
	for _, g := range a.group {
		if v, ok := l[c27CanonTag(g)]; ok {
			res[c27CanonTag(g)] = v
		}
	}
	return res
}

func (a *c27AggNode) eval(ctx *c27RefCtx) []c27RefSeries {
	in := a.inner.eval(ctx)
	type grp struct {
		labels  map[string]string
		members []int
	}
	groups := map[string]*grp{}
	var order []string
	for i := range in {
		gl := a.groupLabels(in[i].labels)
		k := c27LabelKey(gl)
		g := groups[k]
		if g == nil {
			g = &grp{labels: gl}
			groups[k] = g
			order = append(order, k)
		}
		g.members = append(g.members, i)
	}
	sort.Strings(order)
	n := len(ctx.grid)
	var res []c27RefSeries
	for _, k := range order {
		g := groups[k]
		if a.op == "topk" || a.op == "bottomk" {
			res = append(res, a.selectK(ctx, in, g.members)...)
			continue
		}
		out := c27RefSeries{labels: g.labels, vals: make([]float64, n)}
		for t := 0; t < n; t++ {
			var vs []float64
			for _, m := range g.members {
				if v := in[m].vals[t]; !math.IsNaN(v) {
					vs = append(vs, v)
				}
			}
			if len(vs) == 0 {
				out.vals[t] = math.NaN()
				continue
			}
			switch a.op {
			case "sum":
				var s float64
				for _, v := range vs {
					s += v
				}
				out.vals[t] = s
			case "avg":
				var s float64
				for _, v := range vs {
					s += v
				}
				out.vals[t] = s / float64(len(vs))
			case "min":
				m := vs[0]
				for _, v := range vs {
					m = math.Min(m, v)
				}
				out.vals[t] = m
			case "max":
				m := vs[0]
				for _, v := range vs {
					m = math.Max(m, v)
				}
				out.vals[t] = m
			case "count":
				out.vals[t] = float64(len(vs))
			case "group":
				out.vals[t] = 1
			case "stdvar":
				out.vals[t] = c27StdVar(vs)
			case "stddev":
				out.vals[t] = math.Sqrt(c27StdVar(vs))
			case "quantile":
				out.vals[t] = c27Quantile(a.param, vs)
			default:
				panic("c27: unknown aggregation " + a.op)
			}
		}
		res = append(res, out)
	}
	return res
}

// selectK: the documented StatsHouse meaning of topk/bottomk — whole series are kept, ranked
// by the weight sum(v^2 * step) over the visible points (the value of the last point if no
// series of the group ever decreases).  The caller judges the visible part only, so the
// weight is computed by c27TopKJudge on the trimmed series; here all members are returned
// and marked.
func (a *c27AggNode) selectK(_ *c27RefCtx, in []c27RefSeries, members []int) []c27RefSeries {
	var res []c27RefSeries
	for _, m := range members {
		res = append(res, in[m])
	}
	return res
}
