//go:build verif

package promql

import (
	"fmt"
	"math"
	"regexp"
	"sort"
	"strings"
)

// ---------------------------------------------------------------------------------
// Expression model: every generated expression is a small tree that can print itself as
// PromQL text and evaluate itself with the independent reference evaluator (operator
// definitions written from the Prometheus documentation, missing points excluded).
// The reference works on the raw rows of the fixture; NaN in a reference value means
// "no present point — not judged".
// ---------------------------------------------------------------------------------

type c27RefCtx struct {
	st   *c27Store
	grid  []int64 // extended grid (history + visible), spacing step
	step  int64
	qstep int64 // Timescale.Step the engine asks the storage with (0: the LOD step)
}

type c27RefSeries struct {
	labels map[string]string // empty values dropped
	vals   []float64         // over ctx.grid
	// tol: absolute tolerance per point (nil = none) for results that are differences of values
	// (variance family): derived from the conditioning of the two-pass formula on the inputs of
	// that point, NOT from the magnitude of the values
	tol []float64
}

func c27LabelKey(l map[string]string) string {
	ks := make([]string, 0, len(l))
	for k, v := range l {
		if k == "__name__" || v == "" {
			continue
		}
		ks = append(ks, k+"="+v)
	}
	sort.Strings(ks)
	return strings.Join(ks, ",")
}

type c27Node interface {
	text() string
	eval(ctx *c27RefCtx) []c27RefSeries
}

// ---- selector

type c27Matcher struct {
	tag   string // k j h
	op    string // = != =~ !~
	value string
}

type c27Sel struct {
	metric   string
	what     string   // "" = default digest of the metric kind
	by       []string // __by__ list; nil = not given (all tags)
	byGiven  bool
	matchers []c27Matcher
	offset   int64
}

var c27TagIndex = map[string]int{"0": 0, "k": 1, "j": 2, "h": 3}
var c27TagNames = [c27NTags]string{"0", "k", "j", "h"}

func (s *c27Sel) text() string {
	var ms []string
	for _, m := range s.matchers {
		ms = append(ms, fmt.Sprintf("%s%s%q", m.tag, m.op, m.value))
	}
	if s.what != "" {
		ms = append(ms, fmt.Sprintf("__what__=%q", s.what))
	}
	if s.byGiven {
		ms = append(ms, fmt.Sprintf("__by__=%q", strings.Join(s.by, ",")))
	}
	t := s.metric
	if len(ms) != 0 {
		t += "{" + strings.Join(ms, ",") + "}"
	}
	if s.offset != 0 {
		t += fmt.Sprintf(" offset %ds", s.offset)
	}
	return t
}

func (s *c27Sel) digest(st *c27Store) DigestWhat {
	if s.what == "" {
		if st.metrics[s.metric].Kind == "counter" {
			return DigestCount
		}
		return DigestAvg
	}
	d, _, ok := parseSelectorWhat(s.what)
	if !ok {
		panic("c27: bad what " + s.what)
	}
	return d
}

func (s *c27Sel) eval(ctx *c27RefCtx) []c27RefSeries {
	m := ctx.st.metrics[s.metric]
	var grouped [c27NTags]bool
	if s.byGiven {
		for _, n := range s.by {
			grouped[c27TagIndex[n]] = true
		}
	} else {
		for i := range grouped {
			grouped[i] = true
		}
	}
	d := s.digest(ctx.st)
	type acc struct {
		tags [c27NTags]int32
		a    []c27Agg
	}
	groups := map[c27TagKey]*acc{}
	g0 := ctx.grid[0]
	n := len(ctx.grid)
rows:
	for i := range ctx.st.rows[m.MetricID] {
		r := &ctx.st.rows[m.MetricID][i]
		t := r.t + s.offset // a row at time t is seen at t+offset
		if t < g0 || t >= g0+int64(n)*ctx.step {
			continue
		}
		for _, mt := range s.matchers {
			v := c27TagString(r.tag[c27TagIndex[mt.tag]])
			var ok bool
			switch mt.op {
			case "=":
				ok = v == mt.value
			case "!=":
				ok = v != mt.value
			case "=~":
				ok = regexp.MustCompile("^(?:" + mt.value + ")$").MatchString(v)
			case "!~":
				ok = !regexp.MustCompile("^(?:" + mt.value + ")$").MatchString(v)
			}
			if !ok {
				continue rows
			}
		}
		var k c27TagKey
		for x := 0; x < c27NTags; x++ {
			if grouped[x] {
				k[x] = r.tag[x]
			} else {
				k[x] = -1
			}
		}
		g := groups[k]
		if g == nil {
			g = &acc{tags: k, a: make([]c27Agg, n)}
			groups[k] = g
		}
		g.a[(t-g0)/ctx.step].add(r)
	}
	var res []c27RefSeries
	for _, g := range groups {
		sr := c27RefSeries{labels: map[string]string{}, vals: make([]float64, n)}
		for x := 0; x < c27NTags; x++ {
			if grouped[x] {
				if v := c27TagString(g.tags[x]); v != "" {
					sr.labels[c27TagNames[x]] = v
				}
			}
		}
		for i := range g.a {
			if g.a[i].set {
				// the engine asks with Range == 0 here: queryStep = Timescale.Step
				qs := ctx.qstep
				if qs == 0 {
					qs = ctx.step
				}
				sr.vals[i] = c27Value(&g.a[i], d, qs, ctx.step)
			} else {
				sr.vals[i] = math.NaN()
			}
		}
		res = append(res, sr)
	}
	return res
}

// ---- value-preserving wrappers that keep reduction rules from matching

var c27Zero float64 // a variable: Go constant division by zero does not compile

var c27InfWraps = []string{"div0", "negdiv0", "absdiv0", "negabsdiv0", "mulhuge", "pow", "div0", "shiftdiv0"}

type c27Wrap struct {
	kind  string // "sub0" "mul1" "abs" "paren" "neg"
	inner c27Node
}

func (w *c27Wrap) text() string {
	switch w.kind {
	case "sub0":
		return w.inner.text() + " - 0"
	case "mul1":
		return "1 * " + w.inner.text()
	case "abs":
		return "abs(" + w.inner.text() + ")"
	case "neg":
		return "-" + w.inner.text()
	case "subbig":
		return "(" + w.inner.text() + " - 1700000000)"
	case "div0":
		return w.inner.text() + " / 0"
	case "negdiv0":
		return "-" + w.inner.text() + " / 0"
	case "absdiv0":
		return "abs(" + w.inner.text() + ") / 0"
	case "negabsdiv0":
		return "-abs(" + w.inner.text() + ") / 0"
	case "shiftdiv0":
		return "(" + w.inner.text() + " - 21) / 0"
	case "mulhuge":
		return w.inner.text() + " * 1e308"
	case "pow":
		return w.inner.text() + " ^ 1001"
	}
	return "(" + w.inner.text() + ")"
}

func (w *c27Wrap) eval(ctx *c27RefCtx) []c27RefSeries {
	in := w.inner.eval(ctx)
	for i := range in {
		for j, v := range in[i].vals {
			switch w.kind {
			case "abs":
				in[i].vals[j] = math.Abs(v)
			case "neg":
				in[i].vals[j] = -v
			case "subbig":
				in[i].vals[j] = v - 1700000000
			case "div0":
				in[i].vals[j] = v / c27Zero // 0/0 is NaN: a missing point from here on
			case "negdiv0":
				in[i].vals[j] = -v / c27Zero
			case "absdiv0":
				in[i].vals[j] = math.Abs(v) / c27Zero
			case "negabsdiv0":
				in[i].vals[j] = -math.Abs(v) / c27Zero
			case "shiftdiv0":
				in[i].vals[j] = (v - 21) / c27Zero
			case "mulhuge":
				in[i].vals[j] = v * 1e308
			case "pow":
				in[i].vals[j] = math.Pow(v, 1001)
			}
		}
	}
	return in
}

// ---- over-time functions: points in (t-R, t]

type c27OverTime struct {
	fn       string
	phi      float64 // quantile_over_time
	rng      int64
	inner    c27Node // selector, or any node when subquery
	subquery bool
}

func (o *c27OverTime) text() string {
	arg := o.inner.text()
	if o.subquery {
		needParen := false
		switch x := o.inner.(type) {
		case *c27Sel:
			needParen = true
		case *c27Wrap:
			needParen = x.kind != "abs" && x.kind != "subbig" && x.kind != "paren"
		}
		if needParen {
			arg = "(" + arg + ")"
		}
		arg += fmt.Sprintf("[%ds:]", o.rng)
	} else {
		// range goes before the offset modifier
		if s, ok := o.inner.(*c27Sel); ok && s.offset != 0 {
			c := *s
			c.offset = 0
			arg = c.text() + fmt.Sprintf("[%ds] offset %ds", o.rng, s.offset)
		} else {
			arg += fmt.Sprintf("[%ds]", o.rng)
		}
	}
	if o.fn == "quantile_over_time" {
		return fmt.Sprintf("%s(%s, %s)", o.fn, c27Num(o.phi), arg)
	}
	return fmt.Sprintf("%s(%s)", o.fn, arg)
}

func c27Num(v float64) string {
	return strings.TrimSuffix(strings.TrimRight(fmt.Sprintf("%.4f", v), "0"), ".")
}

func c27Quantile(phi float64, vs []float64) float64 {
	if math.IsNaN(phi) {
		return math.NaN()
	}
	if phi < 0 {
		return math.Inf(-1)
	}
	if phi > 1 {
		return math.Inf(1)
	}
	s := append([]float64(nil), vs...)
	sort.Float64s(s)
	n := float64(len(s))
	rank := phi * (n - 1)
	lo := math.Max(0, math.Floor(rank))
	hi := math.Min(n-1, lo+1)
	// lower*(1-weight) + upper*weight with weight = rank-lo written as 1-(hi-rank): with infinite
	// values Inf*0 is NaN, so which term gets the zero weight is part of the definition
	wLo := hi - rank
	return s[int(lo)]*wLo + s[int(hi)]*(1-wLo)
}

const c27Eps = 2.220446049250313e-16

// Two NaN payloads besides "no present point — not judged":
//   c27ArithNaN  — points are present and the definition itself yields NaN (+Inf + -Inf, Inf*0 in
//                  the quantile interpolation, variance of infinities): judged, the engine must
//                  return NaN there.  Fed into an outer operator it is a missing point, as in the
//                  engine (which has no other representation of "missing").
//   c27ScopedNaN — present points, but a class the pinned engine is known to get wrong and that is
//                  scoped out with a counter (see c27OverTime.eval).
var (
	c27ArithNaN  = math.Float64frombits(0x7ff8000000000a27)
	c27ScopedNaN = math.Float64frombits(0x7ff8000000000b27)
)

func c27IsArithNaN(v float64) bool  { return math.Float64bits(v) == math.Float64bits(c27ArithNaN) }
func c27IsScopedNaN(v float64) bool { return math.Float64bits(v) == math.Float64bits(c27ScopedNaN) }

// c27VarTol: how far a correct (two-pass) population variance of vs may be from the exact one:
// 1e-6 relative to the true result, plus the square of the rounding error of the mean
// (n*eps*max|x|), plus the rounding of the squared deviations.  inTol is the tolerance the
// inputs themselves carry.
func c27VarTol(vs []float64, v, inTol float64) float64 {
	n := float64(len(vs))
	var mean, maxAbs, maxDev float64
	for _, x := range vs {
		mean += x / n
		maxAbs = math.Max(maxAbs, math.Abs(x))
	}
	for _, x := range vs {
		maxDev = math.Max(maxDev, math.Abs(x-mean))
	}
	d := n * c27Eps * maxAbs
	return 1e-6*v + 4*d*d + 64*c27Eps*n*maxDev*maxDev + 2*inTol*maxDev + inTol*inTol
}

// c27SumTol: rounding of a sum (or mean) of vs whatever the order of the additions.
func c27SumTol(vs []float64) float64 {
	var a float64
	for _, x := range vs {
		a += math.Abs(x)
	}
	return float64(len(vs)+1) * c27Eps * a
}

// c27SdTol converts a tolerance of the variance into one of the standard deviation.
func c27SdTol(tolVar, sd float64) float64 {
	t := math.Sqrt(tolVar)
	if sd > 0 && tolVar/sd < t {
		t = tolVar / sd
	}
	return t
}

func c27StdVar(vs []float64) float64 {
	var mean float64
	for _, v := range vs {
		mean += v
	}
	mean /= float64(len(vs))
	var acc float64
	for _, v := range vs {
		acc += (v - mean) * (v - mean)
	}
	return acc / float64(len(vs))
}

func (o *c27OverTime) eval(ctx *c27RefCtx) []c27RefSeries {
	in := o.inner.eval(ctx)
	w := int(o.rng / ctx.step)
	for i := range in {
		src := in[i].vals
		dst := make([]float64, len(src))
		dtol := make([]float64, len(src))
		dmark := make([]bool, len(src)) // a point is present in the window
		for t := range src {
			if t-w+1 < 0 {
				dst[t] = math.NaN() // window not inside the data
				continue
			}
			var vs []float64
			var tolSum, tolMax float64
			for x := t - w + 1; x <= t; x++ {
				if !math.IsNaN(src[x]) {
					vs = append(vs, src[x])
					if in[i].tol != nil {
						tolSum += in[i].tol[x]
						tolMax = math.Max(tolMax, in[i].tol[x])
					}
				}
			}
			if len(vs) == 0 {
				dst[t] = math.NaN()
				continue
			}
			dtol[t] = tolMax
			dmark[t] = true
			switch o.fn {
			case "sum_over_time":
				var s float64
				for _, v := range vs {
					s += v
				}
				dst[t] = s
				dtol[t] = tolSum + c27SumTol(vs)
			case "avg_over_time":
				var s float64
				for _, v := range vs {
					s += v
				}
				dst[t] = s / float64(len(vs))
				dtol[t] = tolMax + c27SumTol(vs)/float64(len(vs))
			case "min_over_time":
				m := vs[0]
				for _, v := range vs {
					m = math.Min(m, v)
				}
				dst[t] = m
			case "max_over_time":
				m := vs[0]
				for _, v := range vs {
					m = math.Max(m, v)
				}
				dst[t] = m
			case "count_over_time":
				dst[t] = float64(len(vs))
			case "stdvar_over_time":
				dst[t] = c27StdVar(vs)
				dtol[t] = c27VarTol(vs, dst[t], tolMax)
			case "stddev_over_time":
				v := c27StdVar(vs)
				dst[t] = math.Sqrt(v)
				dtol[t] = c27SdTol(c27VarTol(vs, v, tolMax), dst[t])
			case "last_over_time":
				dst[t] = vs[len(vs)-1]
			case "present_over_time":
				dst[t] = 1
			case "quantile_over_time":
				dst[t] = c27Quantile(o.phi, vs)
				dtol[t] = tolMax + 8*c27Eps*math.Abs(dst[t])
			default:
				panic("c27: unknown over-time function " + o.fn)
			}
		}
		for t := range dst {
			if math.IsNaN(dst[t]) && dmark[t] {
				dst[t] = c27ArithNaN
			}
			// min_over_time over a window of only +Inf points is +Inf (max_over_time / -Inf likewise):
			// judged since the repair 54fda1bd (the engine used to start from ±MaxFloat64)
		}
		in[i].vals = dst
		in[i].tol = dtol
	}
	return in
}

// ---- aggregation operators

type c27AggNode struct {
	op      string
	param   float64
	without bool
	group   []string // nil = no modifier
	grouped bool
	inner   c27Node
	// set by eval for topk/bottomk: groups where the choice is not unique
	ties int
}

func (a *c27AggNode) text() string {
	s := a.op
	if a.grouped {
		if a.without {
			s += " without (" + strings.Join(a.group, ", ") + ")"
		} else {
			s += " by (" + strings.Join(a.group, ", ") + ")"
		}
	}
	s += " ("
	if a.op == "quantile" || a.op == "topk" || a.op == "bottomk" {
		s += c27Num(a.param) + ", "
	}
	return s + a.inner.text() + ")"
}

// a grouping label may be a tag name or a tag id ("1" is k)
var c27TagIDToName = map[string]string{"1": "k", "2": "j", "3": "h"}

func c27CanonTag(n string) string {
	if v, ok := c27TagIDToName[n]; ok {
		return v
	}
	return n
}

func (a *c27AggNode) groupLabels(l map[string]string) map[string]string {
	res := map[string]string{}
	if a.without {
	outer:
		for k, v := range l {
			for _, g := range a.group {
				if c27CanonTag(g) == k {
					continue outer
				}
			}
			res[k] = v
		}
		return res
	}
	for _, g := range a.group {
		if v, ok := l[c27CanonTag(g)]; ok {
			res[c27CanonTag(g)] = v
		}
	}
	return res
}

func (a *c27AggNode) eval(ctx *c27RefCtx) []c27RefSeries {
	in := a.inner.eval(ctx)
	type grp struct {
		labels  map[string]string
		members []int
	}
	groups := map[string]*grp{}
	var order []string
	for i := range in {
		gl := a.groupLabels(in[i].labels)
		k := c27LabelKey(gl)
		g := groups[k]
		if g == nil {
			g = &grp{labels: gl}
			groups[k] = g
			order = append(order, k)
		}
		g.members = append(g.members, i)
	}
	sort.Strings(order)
	n := len(ctx.grid)
	var res []c27RefSeries
	for _, k := range order {
		g := groups[k]
		if a.op == "topk" || a.op == "bottomk" {
			res = append(res, a.selectK(ctx, in, g.members)...)
			continue
		}
		out := c27RefSeries{labels: g.labels, vals: make([]float64, n), tol: make([]float64, n)}
		for t := 0; t < n; t++ {
			var vs []float64
			var tolSum, tolMax float64
			for _, m := range g.members {
				if v := in[m].vals[t]; !math.IsNaN(v) {
					vs = append(vs, v)
					if in[m].tol != nil {
						tolSum += in[m].tol[t]
						tolMax = math.Max(tolMax, in[m].tol[t])
					}
				}
			}
			if len(vs) == 0 {
				out.vals[t] = math.NaN()
				continue
			}
			out.tol[t] = tolMax
			switch a.op {
			case "sum":
				var s float64
				for _, v := range vs {
					s += v
				}
				out.vals[t] = s
				out.tol[t] = tolSum + c27SumTol(vs)
			case "avg":
				var s float64
				for _, v := range vs {
					s += v
				}
				out.vals[t] = s / float64(len(vs))
				out.tol[t] = tolMax + c27SumTol(vs)/float64(len(vs))
			case "min":
				m := vs[0]
				for _, v := range vs {
					m = math.Min(m, v)
				}
				out.vals[t] = m
			case "max":
				m := vs[0]
				for _, v := range vs {
					m = math.Max(m, v)
				}
				out.vals[t] = m
			case "count":
				out.vals[t] = float64(len(vs))
			case "group":
				out.vals[t] = 1
			case "stdvar":
				out.vals[t] = c27StdVar(vs)
				out.tol[t] = c27VarTol(vs, out.vals[t], tolMax)
			case "stddev":
				v := c27StdVar(vs)
				out.vals[t] = math.Sqrt(v)
				out.tol[t] = c27SdTol(c27VarTol(vs, v, tolMax), out.vals[t])
			case "quantile":
				out.vals[t] = c27Quantile(a.param, vs)
				if !math.IsInf(out.vals[t], 0) {
					out.tol[t] = tolMax + 8*c27Eps*math.Abs(out.vals[t])
				}
			default:
				panic("c27: unknown aggregation " + a.op)
			}
			if math.IsNaN(out.vals[t]) {
				out.vals[t] = c27ArithNaN // members are present
			}
		}
		res = append(res, out)
	}
	return res
}

// selectK: the documented StatsHouse meaning of topk/bottomk — whole series are kept, ranked
// by the weight sum(v^2 * step) over the visible points (the value of the last point if no
// series of the group ever decreases).  The caller judges the visible part only, so the
// weight is computed by c27TopKJudge on the trimmed series; here all members are returned
// and marked.
func (a *c27AggNode) selectK(_ *c27RefCtx, in []c27RefSeries, members []int) []c27RefSeries {
	var res []c27RefSeries
	for _, m := range members {
		res = append(res, in[m])
	}
	return res
}

// ---- time(): one series without labels whose value is the timestamp (large values, spread of
// a few steps inside a window)

type c27TimeNode struct{}

func (*c27TimeNode) text() string { return "time()" }

func (*c27TimeNode) eval(ctx *c27RefCtx) []c27RefSeries {
	sr := c27RefSeries{labels: map[string]string{}, vals: make([]float64, len(ctx.grid))}
	for i, t := range ctx.grid {
		sr.vals[i] = float64(t)
	}
	return []c27RefSeries{sr}
}
