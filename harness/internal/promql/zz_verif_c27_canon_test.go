//go:build verif

package promql

import (
	"fmt"

	"github.com/VKCOM/statshouse/internal/format"
	"github.com/VKCOM/statshouse/internal/zzverif/verifkit"
)

// c27CanonStore: a fixed 4-series data set small enough to check by hand; every
// (rule, operator, digest) triple is run on it in every run, so that each reduction
// signature has one stable minimal reproducer.
//
//	second:            0      1      2      3
//	m{k=v1,j=v1}  cnt=1 v=10   cnt=1 v=11  cnt=1 v=12   cnt=1 v=13
//	m{k=v1,j=v2}  cnt=2 v=20,22 (same every second)
//	m{k=v2,j=v1}  cnt=3 v=30,32,34 (same every second; missing at second 2)
//	m{k=v2,j=v2}  cnt=1 v=40   (same every second)
//
// c has the same rows with counts only.
func c27CanonStore(step, qstep int64) (*c27Store, c27DataSpec, []map[string]any) {
	now := int64(1790000040)
	sp := c27DataSpec{Step: step, QStep: qstep, Now: now, Start: now - 120, End: now - 120 + 4*step}
	mv := &format.MetricMetaValue{MetricID: 1, Name: "m", Kind: format.MetricKindValue,
		Tags: []format.MetricMetaTag{{}, {Name: "k"}, {Name: "j"}, {Name: "h"}}}
	_ = mv.RestoreCachedInfo()
	mc := &format.MetricMetaValue{MetricID: 2, Name: "c", Kind: format.MetricKindCounter,
		Tags: []format.MetricMetaTag{{}, {Name: "k"}, {Name: "j"}, {Name: "h"}}}
	_ = mc.RestoreCachedInfo()
	st := &c27Store{metrics: map[string]*format.MetricMetaValue{"m": mv, "c": mc}, rows: map[int32][]c27Row{}, now: now}
	var lit []map[string]any
	for t := sp.Start - 4*step; t < sp.End; t += step {
		type s struct {
			k, j int32
			vs   []float64
		}
		for _, x := range []s{{1, 1, []float64{10 + float64((t-sp.Start)/step)}}, {1, 2, []float64{20, 22}}, {2, 1, []float64{30, 32, 34}}, {2, 2, []float64{40}}} {
			if x.k == 2 && x.j == 1 && t == sp.Start+2*step {
				continue
			}
			r := c27Row{tag: [c27NTags]int32{0, x.k, x.j, 0}, t: t, cnt: float64(len(x.vs))}
			for i, v := range x.vs {
				r.sum += v
				r.sumsq += v * v
				if i == 0 || v < r.mn {
					r.mn = v
				}
				if i == 0 || v > r.mx {
					r.mx = v
				}
			}
			st.rows[1] = append(st.rows[1], r)
			st.rows[2] = append(st.rows[2], c27Row{tag: r.tag, t: t, cnt: r.cnt})
			if t >= sp.Start {
				lit = append(lit, map[string]any{"t": (t - sp.Start) / step, "k": c27TagString(x.k), "j": c27TagString(x.j), "values": x.vs})
			}
		}
	}
	return st, sp, lit
}

// c27RedKey: signature of a disagreement.  When Query.Step is neither 0 nor the LOD step the
// storage normalises count/sum digests to Query.Step while the pushed-down form normalises to
// the range; inside the must-agree set this is a root cause of its own and gets its own family.
func c27RedKey(c c27Case, digest string, sp c27DataSpec) string {
	fam := "reduction"
	if sp.QStep != 0 && sp.QStep != sp.Step && c27MustAgree(c, digest) {
		fam = "reduction-step-ne-lod"
	}
	return fmt.Sprintf("C27/%s/%d/%s/%s", fam, c.rule, c.op, digest)
}

func c27Canonical(r *verifkit.Run, step, qstep int64) {
	st, sp, lit := c27CanonStore(step, qstep)
	var cases []c27Case
	sels := func() []*c27Sel {
		var res []*c27Sel
		for _, d := range c27Digests {
			res = append(res, &c27Sel{metric: "m", what: d})
		}
		res = append(res, &c27Sel{metric: "m"}, &c27Sel{metric: "c"})
		return res
	}
	for _, grouped := range []bool{false, true} {
		mk := func(op string, inner c27Node) *c27AggNode {
			a := &c27AggNode{op: op, inner: inner}
			if grouped {
				a.grouped, a.group = true, []string{"k"}
			}
			return a
		}
		for _, s := range sels() {
			for _, op := range c27ReducibleAggs {
				a := mk(op, s)
				cases = append(cases, c27Case{kind: "red/0", node: a, rule: 0, op: op, sel: s, outer: a})
			}
			if !grouped {
				for _, fn := range c27ReducibleFns {
					o := &c27OverTime{fn: fn, rng: sp.Step, inner: s}
					cases = append(cases, c27Case{kind: "red/1", node: o, rule: 1, op: fn, sel: s, ot: o})
				}
			}
			for fn, op := range c27CompatAgg {
				o := &c27OverTime{fn: fn, rng: sp.Step, inner: s}
				a := mk(op, o)
				cases = append(cases, c27Case{kind: "red/2", node: a, rule: 2, op: op + "-of-" + fn, sel: s, outer: a, ot: o})
				a3 := mk(op, s)
				o3 := &c27OverTime{fn: fn, rng: sp.Step, inner: a3, subquery: true}
				cases = append(cases, c27Case{kind: "red/3", node: o3, rule: 3, op: fn + "-of-" + op, sel: s, ot: o3})
			}
		}
	}
	seen := map[string]bool{}
	for _, c := range cases {
		expr := c.node.text()
		digest := c.sel.digest(st).String()
		key := c27RedKey(c, digest, sp)
		if step != qstep && !c27MustAgree(c, digest) {
			continue // the second canonical pass is about the must-agree set only
		}
		var red, eng c27EngResult
		var err1, err2 error
		if r.Guard("C27/reduction/panic", func() any { return expr }, func() {
			red, _, err1 = c27RunEngine(st, sp, expr, false)
			eng, _, err2 = c27RunEngine(st, sp, expr, true)
		}) {
			continue
		}
		if err1 != nil || err2 != nil {
			r.Violation("C27/reduction/engine-error", "the engine rejects a supported expression", map[string]any{"expr": expr, "error_reduced": fmt.Sprint(err1), "error_engine_side": fmt.Sprint(err2)})
			continue
		}
		if len(red.reduced) != 1 {
			r.NotJudged("reduction-did-not-fire", 1)
			continue
		}
		detail, same := c27CompareResults(red, eng, sp.Start)
		r.Case(true, fmt.Sprintf("canon%d/%d|%s", step, qstep, expr))
		r.Count("red.canonical.cases", 1)
		if same {
			continue
		}
		r.Count("red.canonical.disagreed", 1)
		what := fmt.Sprintf("reduction rule #%d changes the result of %s over a selector with digest %s", c.rule, c.op, digest)
		if c27MustAgree(c, digest) {
			what += " (inside the must-agree set)"
		}
		wit := map[string]any{"expr": expr, "first_difference": detail, "reduced_result": c27Dump(red), "engine_side_result": c27Dump(eng),
			"query": map[string]any{"start": sp.Start, "end": sp.End, "step": sp.QStep, "now": sp.Now, "lod_step": sp.Step}}
		if !seen[key] {
			wit[fmt.Sprintf("canonical_rows_of_m (one row per %d s slot; c: same rows, counts only)", step)] = lit
			seen[key] = true
		}
		r.Violation(key, what, wit)
	}
}

func c27Dump(e c27EngResult) map[string][]string {
	res := map[string][]string{}
	for k, s := range e.series {
		var vs []string
		for i := range e.time {
			vs = append(vs, c27Fmt(s.vals[i]))
		}
		res["{"+k+"}"] = vs
	}
	return res
}

// c27CanonicalDefs: a few definition cases on the canonical data (hand-checkable witnesses for
// the definition signatures; run first so that they are the recorded ones).
func c27CanonicalDefs(r *verifkit.Run) {
	st, sp, _ := c27CanonStore(1, 1)
	r.Parallel(1, "canon-def", func(w *verifkit.Worker) {
		sel := func(what string, ms ...c27Matcher) *c27Sel { return &c27Sel{metric: "m", what: what, matchers: ms} }
		var cases []c27Case
		// second 2: members {12, 21, (missing), 40}
		for _, op := range c27AllAggs {
			s := sel("avg")
			a := &c27AggNode{op: op, inner: &c27Wrap{kind: "sub0", inner: s}}
			switch op {
			case "quantile":
				a.param = 0.5
			case "topk", "bottomk":
				a.param = 2
			}
			cases = append(cases, c27Case{kind: "def/canonical", node: a, outer: a, sel: s})
		}
		for _, fn := range c27AllFns {
			s := sel("avg", c27Matcher{"k", "=", "v2"}, c27Matcher{"j", "=", "v1"})
			o := &c27OverTime{fn: fn, rng: 2, inner: s, phi: 0.5}
			cases = append(cases, c27Case{kind: "def/canonical", node: o, sel: s, ot: o})
		}
		// time(): 5 consecutive seconds around 1.79e9 — population variance exactly 2
		for _, fn := range []string{"stdvar_over_time", "stddev_over_time", "avg_over_time"} {
			for _, base := range []c27Node{&c27TimeNode{}, &c27Wrap{kind: "subbig", inner: &c27TimeNode{}}} {
				o := &c27OverTime{fn: fn, rng: 5, inner: base, subquery: true}
				cases = append(cases, c27Case{kind: "def/canonical-time", node: o, ot: o, big: true})
			}
		}
		// infinities as values: avg digests per second are {10+t, 21, 32, 40}
		for _, wk := range []string{"absdiv0", "negabsdiv0", "shiftdiv0"} { // all +Inf | all -Inf | -Inf, missing(0/0), +Inf, +Inf
			for _, op := range []string{"sum", "min", "max", "avg", "count", "group", "stddev", "stdvar", "quantile"} {
				s := sel("avg")
				a := &c27AggNode{op: op, param: 0.5, inner: &c27Wrap{kind: wk, inner: s}}
				cases = append(cases, c27Case{kind: "def/canonical-inf", node: a, outer: a, sel: s, inf: true})
			}
			for _, fn := range c27AllFns {
				s := sel("avg", c27Matcher{"k", "=", "v2"}, c27Matcher{"j", "=", "v1"})
				o := &c27OverTime{fn: fn, rng: 2, inner: &c27Wrap{kind: wk, inner: s}, phi: 0.5, subquery: true}
				cases = append(cases, c27Case{kind: "def/canonical-inf", node: o, sel: s, ot: o, inf: true})
			}
		}
		for _, c := range cases {
			c27DoDef(r, w, st, sp, c, -1)
		}
	})
}
