//go:build verif

package aggregator

// C03, unit "insert_encoder": the whole marshalling step of goInsert
// (rowDataMarshalAppendPositions of a stub Aggregator: no network, no goroutines, insert
// budget not binding) over metrics whose meta carries every combination of skip_min_host /
// skip_max_host / skip_sum_square.  The metas go through the real journal path
// (tlmetadata.Event JSON -> MetricsStorage.ApplyEvent).  Per row: a column whose flag is set
// is written empty / zero, every column whose flag is not set holds the value of the
// reference; host arguments are decoded by the API's column readers.

import (
	"fmt"
	"math"
	mrand "math/rand/v2"
	"sort"
	"strings"
	"testing"

	"pgregory.net/rand"

	"github.com/VKCOM/statshouse/internal/data_model"
	"github.com/VKCOM/statshouse/internal/data_model/gen2/tlmetadata"
	"github.com/VKCOM/statshouse/internal/format"
	"github.com/VKCOM/statshouse/internal/metajournal"
	"github.com/VKCOM/statshouse/internal/zzverif/verifkit"
)

const (
	c03encMetricBase   = 6000 // 6000+combo, combo bit0 skip_min_host, bit1 skip_max_host, bit2 skip_sum_square
	c03encMetricNoMeta = 6100 // a metric the journal does not know
	c03encIDTag        = 5    // tag position that identifies the generated item
)

type c03encTruth struct {
	Kind                 string
	Count                float64
	HasValue             bool
	Min, Max, Sum, SumSq float64
	MinHost, MaxHost     c03Host
	Hosts                map[c03Host]struct{}
	Distinct             int
	HasDigest            bool
}

func c03encHost(rnd *mrand.Rand) data_model.TagUnion {
	if rnd.IntN(3) == 0 {
		return data_model.TagUnion{S: fmt.Sprintf("enc-host-%d", rnd.IntN(40))}
	}
	return data_model.TagUnion{I: int32(7000 + rnd.IntN(40))}
}

// fills a MultiValue through the real accumulation methods; every value comes from its own
// host and all values differ, so the hosts of the minimum and of the maximum are determined
func c03encFill(rnd *mrand.Rand, rng *rand.Rand, mv *data_model.MultiValue, kind int) c03encTruth {
	t := c03encTruth{Hosts: map[c03Host]struct{}{}}
	used := map[float64]bool{}
	usedHost := map[data_model.TagUnion]bool{}
	nextVal := func() float64 {
		for {
			v := float64(rnd.IntN(8001)-4000) / 4
			if !used[v] {
				used[v] = true
				return v
			}
		}
	}
	nextHost := func() data_model.TagUnion {
		for {
			h := c03encHost(rnd)
			if !usedHost[h] {
				usedHost[h] = true
				return h
			}
		}
	}
	addV := func(v, c float64, h data_model.TagUnion) {
		hh := c03Host{I: h.I, S: h.S}
		if !t.HasValue || v < t.Min {
			t.Min, t.MinHost = v, hh
		}
		if !t.HasValue || v > t.Max {
			t.Max, t.MaxHost = v, hh
		}
		t.HasValue = true
		t.Sum += v * c
		t.SumSq += v * v * c
		t.Count += c
		t.Hosts[hh] = struct{}{}
	}
	switch kind {
	case 0:
		t.Kind = "counter"
		for i, n := 0, 1+rnd.IntN(3); i < n; i++ {
			h, c := nextHost(), float64(1+rnd.IntN(5))
			mv.AddCounterHost(rng, c, h)
			t.Count += c
			t.Hosts[c03Host{I: h.I, S: h.S}] = struct{}{}
		}
	case 1:
		t.Kind = "value"
		for i, n := 0, 1+rnd.IntN(6); i < n; i++ {
			v, c, h := nextVal(), float64(1+rnd.IntN(4)), nextHost()
			mv.AddValueCounterHost(rng, v, c, h)
			addV(v, c, h)
		}
	case 2:
		t.Kind = "unique"
		set := map[int64]struct{}{}
		base := int64(0)
		for i, n := 0, 1+rnd.IntN(3); i < n; i++ {
			h := nextHost()
			hs := make([]int64, 1+rnd.IntN(40))
			for j := range hs {
				hs[j] = base + int64(1+rnd.IntN(500))
				set[hs[j]] = struct{}{}
			}
			base += 1000 // disjoint ranges: one call owns the minimum, one the maximum
			mv.ApplyUnique(rng, hs, float64(len(hs)), h)
			// ApplyUnique credits the whole call to h
			mn, mx := hs[0], hs[0]
			for _, x := range hs {
				mn, mx = min(mn, x), max(mx, x)
				t.Sum += float64(x)
				t.SumSq += float64(x) * float64(x)
			}
			hh := c03Host{I: h.I, S: h.S}
			if !t.HasValue || float64(mn) < t.Min {
				t.Min, t.MinHost = float64(mn), hh
			}
			if !t.HasValue || float64(mx) > t.Max {
				t.Max, t.MaxHost = float64(mx), hh
			}
			t.HasValue = true
			t.Count += float64(len(hs))
			t.Hosts[hh] = struct{}{}
		}
		t.Distinct = len(set)
	case 3:
		t.Kind = "percentile"
		for i, n := 0, 2+rnd.IntN(20); i < n; i++ {
			v, c, h := nextVal(), float64(1+rnd.IntN(3)), nextHost()
			mv.AddValueCounterHostPercentile(rng, v, c, h, data_model.AggregatorPercentileCompression)
			addV(v, c, h)
		}
		t.HasDigest = mv.ValueTDigest != nil
	}
	return t
}

func TestVerifC03InsertEncoder(t *testing.T) {
	r := verifkit.Start(t, "C03", "insert_encoder")
	defer r.Finish()
	r.SetRule("insert_encoder: buckets of items of 8 metrics whose meta (applied through the journal event path) carries every combination of skip_min_host / skip_max_host / skip_sum_square, plus a metric without meta; kinds counter / value / unique / percentile, tail and string-top rows, int and string hosts, every value from its own host. Marshalled by rowDataMarshalAppendPositions of a stub aggregator (budget not binding). A case = one inserted row; non-trivial = the metric has at least one skip flag and the row carries values; distinct = (flags, kind, truth).")
	cols := func() []string {
		m := aggengInsertRe.FindStringSubmatch("INSERT INTO " + getTableDesc() + "  FORMAT RowBinary")
		if m == nil {
			return nil
		}
		var cs []string
		for _, c := range strings.Split(m[2], ",") {
			cs = append(cs, strings.TrimSpace(c))
		}
		return cs
	}()
	if cols == nil {
		r.Inconclusive("getTableDesc() is not of the form table(col,...)")
		return
	}
	rnd := r.Rand("insert_encoder")
	rng := rand.New(r.SubSeed("insert_encoder/pg"))
	storage := metajournal.MakeMetricsStorage(nil)
	var events []tlmetadata.Event
	for combo := 0; combo < 8; combo++ {
		var fl []string
		if combo&1 != 0 {
			fl = append(fl, `"skip_min_host":true`)
		}
		if combo&2 != 0 {
			fl = append(fl, `"skip_max_host":true`)
		}
		if combo&4 != 0 {
			fl = append(fl, `"skip_sum_square":true`)
		}
		events = append(events, tlmetadata.Event{Id: int64(c03encMetricBase + combo), Name: fmt.Sprintf("c03enc_metric_%d", combo), EventType: format.MetricEvent, Version: int64(combo + 1),
			Data: `{"kind":"mixed",` + strings.Join(append(fl, `"visible":true`), ",") + `}`})
	}
	storage.ApplyEvent(events)
	for combo := 0; combo < 8; combo++ {
		m := storage.GetMetaMetric(int32(c03encMetricBase + combo))
		if m == nil || m.SkipMinHost != (combo&1 != 0) || m.SkipMaxHost != (combo&2 != 0) || m.SkipSumSquare != (combo&4 != 0) {
			r.Inconclusive(fmt.Sprintf("metric meta with flag combination %03b was not accepted by MetricsStorage.ApplyEvent: %+v", combo, m))
			return
		}
	}
	cfg := DefaultConfigAggregator()
	cfg.RemoteInitial.InsertBudget = 1 << 24
	cfg.RemoteInitial.MinInsertBudget = 1 << 40 // the insert budget does not bind
	a := &Aggregator{config: cfg, configR: cfg.RemoteInitial, shardKey: 1, replicaKey: 1, aggregatorHostTag: data_model.TagUnion{I: 1001}, metricStorage: storage}
	a.tagsMapper3 = NewTagsMapper3(a, nil, storage, nil)

	rounds := r.N(6, 120)
	for round := 0; round < rounds; round++ {
		nItems := 200 + rnd.IntN(800)
		type itemTruth struct {
			tail *c03encTruth
			tops map[data_model.TagUnion]*c03encTruth
		}
		truths := map[[2]int32]*itemTruth{}
		var buckets []*aggregatorBucket
		for bi, nb := 0, 1+rnd.IntN(2); bi < nb; bi++ {
			b := newAggregatorBucket(1700000000 + uint32(round*10+bi))
			b.contributorsMetric[0][0].AddCounterHost(rng, 1, data_model.TagUnion{I: 7})
			buckets = append(buckets, b)
		}
		var scratch []byte
		for i := 0; i < nItems; i++ {
			b := buckets[rnd.IntN(len(buckets))]
			var k data_model.Key
			k.Timestamp = b.time
			k.Metric = int32(c03encMetricBase + rnd.IntN(8))
			if rnd.IntN(12) == 0 {
				k.Metric = c03encMetricNoMeta
			}
			k.Tags[c03encIDTag] = int32(i + 1)
			var hash uint64
			scratch, hash = k.XXHash(scratch)
			mi, _ := b.shards[hash%data_model.AggregationShardsPerSecond].GetOrCreateMultiItem(&k, nil, scratch)
			it := &itemTruth{tops: map[data_model.TagUnion]*c03encTruth{}}
			kind := rnd.IntN(4)
			if rnd.IntN(5) == 0 {
				for s, ns := 0, 1+rnd.IntN(3); s < ns; s++ {
					tag := data_model.TagUnion{S: fmt.Sprintf("t%d", s)}
					tt := c03encFill(rnd, rng, mi.MapStringTop(rng, data_model.AggregatorStringTopCapacity, tag, 1), kind)
					it.tops[tag] = &tt
				}
			}
			if len(it.tops) == 0 || rnd.IntN(2) == 0 {
				tt := c03encFill(rnd, rng, &mi.Tail, kind)
				it.tail = &tt
			}
			truths[[2]int32{k.Metric, k.Tags[c03encIDTag]}] = it
		}
		body, _, _, _ := a.rowDataMarshalAppendPositions(buckets, data_model.SamplerBuffers{}, rng, nil)
		where := fmt.Sprintf("insert_encoder round %d (%d items, %d bytes)", round, nItems, len(body))
		rows, err := aggengParseBody(aggengInsert{Columns: cols, Body: body})
		if err != nil {
			r.Violation("C03/encoder/body-not-consumed", "the body of rowDataMarshalAppendPositions is not consumed row by row to its last byte: "+err.Error(), map[string]any{"where": where})
			continue
		}
		seen := 0
		for ri := range rows {
			row := &rows[ri]
			if row.Metric <= 0 {
				continue
			}
			it := truths[[2]int32{row.Metric, row.Tags[c03encIDTag]}]
			top := data_model.TagUnion{I: row.Tags[format.StringTopTagIndexV3], S: row.STags[format.StringTopTagIndexV3]}
			var tt *c03encTruth
			if it != nil {
				tt = it.tail
				if !top.Empty() {
					tt = it.tops[top]
				}
			}
			if tt == nil {
				r.Violation("C03/encoder/unexpected-row", "row that no generated item accounts for", map[string]any{"where": where, "metric": row.Metric, "id": row.Tags[c03encIDTag], "top": fmt.Sprintf("%+v", top)})
				continue
			}
			seen++
			noMeta := row.Metric == c03encMetricNoMeta
			combo := 0
			if !noMeta {
				combo = int(row.Metric - c03encMetricBase)
			}
			sMin, sMax, sSq := combo&1 != 0, combo&2 != 0, combo&4 != 0
			dec, _ := c03DecodeRow(r, row, where)
			wit := func() map[string]any {
				return map[string]any{"where": where, "metric": row.Metric, "has_meta": !noMeta, "skip_min_host": sMin, "skip_max_host": sMax, "skip_sum_square": sSq, "kind": tt.Kind, "top": fmt.Sprintf("%+v", top),
					"truth": map[string]any{"count": tt.Count, "min": tt.Min, "max": tt.Max, "sum": tt.Sum, "sumsquare": tt.SumSq, "min_host": tt.MinHost.String(), "max_host": tt.MaxHost.String(), "hosts": c03HostSetString(tt.Hosts)},
					"row":   map[string]any{"count": row.Count, "min": row.Min, "max": row.Max, "sum": row.Sum, "sumsquare": row.SumSquare, "min_host": dec.MinHost.String(), "max_host": dec.MaxHost.String(), "max_count_host": dec.CntHost.String()}}
			}
			// keys: a wrong column of a metric with meta is a skip-flag matter; a metric without meta has no flags at all
			key := func(col string) string {
				if noMeta { // one root cause whatever the column: flags of another metric are applied
					return "C03/encoder/metric-without-meta/stale-skip-flags"
				}
				return "C03/encoder/skip-flag/" + col
			}
			near := func(a, b float64) bool { return a == b || math.Abs(a-b) <= 1e-12*math.Max(math.Abs(a), math.Abs(b)) }
			if !near(row.Count, tt.Count) {
				r.Violation("C03/encoder/count", fmt.Sprintf("row count %v, reference %v", row.Count, tt.Count), wit())
			}
			if tt.HasValue {
				if row.Min != tt.Min || row.Max != tt.Max || !near(row.Sum, tt.Sum) {
					r.Violation("C03/encoder/min-max-sum", fmt.Sprintf("row min/max/sum %v/%v/%v, reference %v/%v/%v", row.Min, row.Max, row.Sum, tt.Min, tt.Max, tt.Sum), wit())
				}
				switch {
				case sSq && row.SumSquare != 0:
					r.Violation(key("sumsquare"), fmt.Sprintf("skip_sum_square is set but sumsquare %v was written", row.SumSquare), wit())
				case !sSq && !near(row.SumSquare, tt.SumSq):
					r.Violation(key("sumsquare"), fmt.Sprintf("skip_sum_square is not set: sumsquare %v written, reference %v", row.SumSquare, tt.SumSq), wit())
				}
				switch {
				case sMin && !dec.MinEmpty:
					r.Violation(key("min_host"), fmt.Sprintf("skip_min_host is set but min_host %v was written", dec.MinHost), wit())
				case !sMin && (dec.MinEmpty || dec.MinHost != tt.MinHost):
					r.Violation(key("min_host"), fmt.Sprintf("skip_min_host is not set: min_host decoded as %v (empty=%v), the host of the minimum is %v", dec.MinHost, dec.MinEmpty, tt.MinHost), wit())
				}
				switch {
				case sMax && !dec.MaxEmpty:
					r.Violation(key("max_host"), fmt.Sprintf("skip_max_host is set but max_host %v was written", dec.MaxHost), wit())
				case !sMax && (dec.MaxEmpty || dec.MaxHost != tt.MaxHost):
					r.Violation(key("max_host"), fmt.Sprintf("skip_max_host is not set: max_host decoded as %v (empty=%v), the host of the maximum is %v", dec.MaxHost, dec.MaxEmpty, tt.MaxHost), wit())
				}
			} else {
				if row.Min != 0 || row.Max != 0 || row.Sum != 0 || row.SumSquare != 0 || !dec.MinEmpty || !dec.MaxEmpty {
					r.Violation("C03/encoder/value-on-counter", "counter row carries value columns or min/max hosts", wit())
				}
			}
			if _, ok := tt.Hosts[dec.CntHost]; !ok || dec.CntEmpty {
				r.Violation("C03/encoder/max_count_host", fmt.Sprintf("max_count_host %v is none of the contributing hosts {%s}", dec.CntHost, c03HostSetString(tt.Hosts)), wit())
			}
			if tt.Distinct > 0 && dec.UniqSize != uint64(tt.Distinct) {
				r.Violation("C03/encoder/uniq_state", fmt.Sprintf("API-decoded sketch size %d, %d distinct values", dec.UniqSize, tt.Distinct), wit())
			}
			if tt.HasDigest {
				var w float64
				for _, c := range dec.Cent {
					w += c[1]
				}
				if math.Abs(w-tt.Count) > 1e-5*tt.Count {
					r.Violation("C03/encoder/percentiles", fmt.Sprintf("centroid weights sum to %v, reference %v", w, tt.Count), wit())
				}
			}
			r.Count(fmt.Sprintf("encoder.rows.flags_%03b", combo), 1)
			if noMeta {
				r.Count("encoder.rows.metric_without_meta", 1)
			}
			if r.WantSample() && combo == 1 && tt.HasValue {
				r.Sample(wit())
			}
			r.Case(combo != 0 && tt.HasValue, fmt.Sprintf("%v|%03b|%s|%v|%v|%v", noMeta, combo, tt.Kind, tt.Count, tt.Sum, tt.MinHost))
		}
		want := 0
		for _, it := range truths {
			want += len(it.tops)
			if it.tail != nil {
				want++
			}
		}
		if seen != want {
			r.Violation("C03/encoder/row-count", fmt.Sprintf("%d rows of generated items in the body, %d expected (budget does not bind)", seen, want), map[string]any{"where": where})
		}
	}
	var _ = sort.Ints
}
