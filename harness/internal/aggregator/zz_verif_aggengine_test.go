//go:build verif

package aggregator

// Engine "agg-inproc" shared by C03 and the aggregator unit of C10:
// one real MakeAggregator inside the test process (metadata unreachable, mapping cache
// pre-seeded with the aggregator host name, insert budgets huge), a fake ClickHouse HTTP
// endpoint that records every INSERT, real tlstatshouse RPC clients, and an independent
// reader of the RowBinary body (column list taken from the INSERT statement itself, column
// types from the statshouse_v3_incoming DDL).

import (
	"bufio"
	"bytes"
	"context"
	"encoding/binary"
	"encoding/json"
	"fmt"
	"io"
	"math"
	"net"
	"net/http"
	"net/url"
	"os"
	"os/exec"
	"path/filepath"
	"regexp"
	"strconv"
	"strings"
	"sync"
	"sync/atomic"
	"syscall"
	"time"

	"github.com/VKCOM/tl/pkg/rpc"

	"github.com/VKCOM/statshouse/internal/compress"
	"github.com/VKCOM/statshouse/internal/data_model"
	"github.com/VKCOM/statshouse/internal/data_model/gen2/tlstatshouse"
	"github.com/VKCOM/statshouse/internal/format"
	"github.com/VKCOM/statshouse/internal/metajournal"
	"github.com/VKCOM/statshouse/internal/pcache"
	"github.com/VKCOM/statshouse/internal/vkgo/basictl"
	"github.com/VKCOM/statshouse/internal/zzverif/verifkit"
)

// ---------------------------------------------------------------- fake ClickHouse

type aggengInsert struct {
	Seq     int
	Table   string
	Columns []string
	Body    []byte
	Query   string
}

type aggengFakeCH struct {
	ln       net.Listener
	srv      *http.Server
	mu       sync.Mutex
	inserts  []aggengInsert
	other    []string               // non-INSERT queries seen
	onInsert func(ins aggengInsert) // called (outside mu) before the 200 answer is written
	failNext atomic.Int32           // >0: answer the next INSERTs with HTTP 500 (fault injection)
	failed   atomic.Int32
}

var aggengInsertRe = regexp.MustCompile(`(?s)^\s*INSERT\s+INTO\s+([A-Za-z0-9_.]+)\s*\(([^)]*)\)(.*)FORMAT\s+RowBinary\s*$`)

func aggengStartFakeCH() (*aggengFakeCH, error) {
	ln, err := net.Listen("tcp4", "127.0.0.1:0")
	if err != nil {
		return nil, err
	}
	f := &aggengFakeCH{ln: ln}
	f.srv = &http.Server{Handler: http.HandlerFunc(f.handle)}
	go func() { _ = f.srv.Serve(ln) }()
	return f, nil
}

func (f *aggengFakeCH) Addr() string { return f.ln.Addr().String() }

func (f *aggengFakeCH) Close() { _ = f.srv.Close() }

func (f *aggengFakeCH) handle(w http.ResponseWriter, r *http.Request) {
	body, _ := io.ReadAll(r.Body)
	q := r.URL.Query().Get("query")
	if q == "" {
		if uq, err := url.PathUnescape(r.URL.RawQuery); err == nil {
			q = uq
		}
	}
	m := aggengInsertRe.FindStringSubmatch(q)
	if m == nil {
		f.mu.Lock()
		f.other = append(f.other, q)
		f.mu.Unlock()
		w.WriteHeader(200)
		return
	}
	if f.failNext.Load() > 0 && f.failNext.Add(-1) >= 0 {
		f.failed.Add(1)
		w.Header().Set("X-ClickHouse-Exception-Code", "241")
		w.WriteHeader(500)
		_, _ = w.Write([]byte("Code: 241. DB::Exception: injected by verif harness"))
		return
	}
	ins := aggengInsert{Table: m[1], Query: q, Body: body}
	for _, c := range strings.Split(m[2], ",") {
		ins.Columns = append(ins.Columns, strings.TrimSpace(c))
	}
	f.mu.Lock()
	ins.Seq = len(f.inserts)
	f.inserts = append(f.inserts, ins)
	cb := f.onInsert
	f.mu.Unlock()
	if cb != nil {
		cb(ins)
	}
	w.WriteHeader(200)
}

func (f *aggengFakeCH) Inserts() []aggengInsert {
	f.mu.Lock()
	defer f.mu.Unlock()
	return append([]aggengInsert(nil), f.inserts...)
}

// ---------------------------------------------------------------- independent RowBinary reader

type aggengHostArg struct {
	Raw    []byte
	Null   bool   // size field == -1: no argument
	ArgRaw []byte // the `size` bytes of the ClickHouse string (includes the trailing terminator)
	HasVal bool
	Val    float32
}

type aggengRow struct {
	IndexType                                 uint8
	Metric                                    int32
	Time                                      uint32
	PreTag                                    uint32
	PreSTag                                   string
	Tags                                      [format.MaxTags]int32
	STags                                     [format.MaxTags]string
	Count, MaxCount, Min, Max, Sum, SumSquare float64
	Centroids                                 [][2]float32 // mean, weight as written
	PercRaw                                   []byte
	UniqSkip                                  uint8
	UniqItems                                 []uint32
	UniqRaw                                   []byte
	MinHost, MaxHost, MaxCountHost            aggengHostArg
	Off, Len                                  int
	seen                                      map[string]bool
}

type aggengRd struct {
	b   []byte
	pos int
	err error
}

func (r *aggengRd) take(k int) []byte {
	if r.err != nil {
		return nil
	}
	if k < 0 || r.pos+k > len(r.b) {
		r.err = fmt.Errorf("need %d bytes at offset %d, body has %d", k, r.pos, len(r.b))
		return nil
	}
	o := r.b[r.pos : r.pos+k]
	r.pos += k
	return o
}
func (r *aggengRd) u8() uint8 {
	b := r.take(1)
	if b == nil {
		return 0
	}
	return b[0]
}
func (r *aggengRd) u32() uint32 {
	b := r.take(4)
	if b == nil {
		return 0
	}
	return binary.LittleEndian.Uint32(b)
}
func (r *aggengRd) f64() float64 {
	b := r.take(8)
	if b == nil {
		return 0
	}
	return math.Float64frombits(binary.LittleEndian.Uint64(b))
}
func (r *aggengRd) uvarint() uint64 {
	if r.err != nil {
		return 0
	}
	var v uint64
	for shift := uint(0); ; shift += 7 {
		if r.pos >= len(r.b) {
			r.err = fmt.Errorf("varint runs past the body at offset %d", r.pos)
			return 0
		}
		if shift > 63 {
			r.err = fmt.Errorf("varint longer than 10 bytes at offset %d", r.pos)
			return 0
		}
		c := r.b[r.pos]
		r.pos++
		v |= uint64(c&0x7f) << shift
		if c < 0x80 {
			return v
		}
	}
}
func (r *aggengRd) str() string {
	n := r.uvarint()
	if n > uint64(len(r.b)) {
		r.err = fmt.Errorf("string length %d at offset %d exceeds the body", n, r.pos)
		return ""
	}
	return string(r.take(int(n)))
}

// SingleValueDataString followed by SingleValueDataFixed<Float32>
func (r *aggengRd) hostArg() aggengHostArg {
	var h aggengHostArg
	start := r.pos
	size := int32(r.u32())
	if size < 0 {
		if size != -1 && r.err == nil {
			r.err = fmt.Errorf("argMin/argMax string size %d at offset %d", size, start)
		}
		h.Null = true
	} else {
		h.ArgRaw = r.take(int(size))
	}
	has := r.u8()
	if has > 1 && r.err == nil {
		r.err = fmt.Errorf("argMin/argMax has-value flag %d at offset %d", has, r.pos-1)
	}
	if has == 1 {
		h.HasVal = true
		h.Val = math.Float32frombits(r.u32())
	}
	if r.err == nil {
		h.Raw = r.b[start:r.pos]
	}
	return h
}

func aggengColIndex(name, prefix string) (int, bool) {
	if !strings.HasPrefix(name, prefix) {
		return 0, false
	}
	s := name[len(prefix):]
	if s == "" || len(s) > 2 {
		return 0, false
	}
	n := 0
	for _, c := range s {
		if c < '0' || c > '9' {
			return 0, false
		}
		n = n*10 + int(c-'0')
	}
	if n >= format.MaxTags {
		return 0, false
	}
	return n, true
}

// aggengParseBody reads every row of one INSERT body.  It returns the rows read so far and an
// error when the body cannot be consumed exactly to its last byte by whole rows.
func aggengParseBody(ins aggengInsert) ([]aggengRow, error) {
	r := &aggengRd{b: ins.Body}
	var rows []aggengRow
	for r.pos < len(r.b) {
		var row aggengRow
		row.Off = r.pos
		for _, c := range ins.Columns {
			switch c {
			case "index_type":
				row.IndexType = r.u8()
			case "metric":
				row.Metric = int32(r.u32())
			case "time":
				row.Time = r.u32()
			case "pre_tag":
				row.PreTag = r.u32()
			case "pre_stag":
				row.PreSTag = r.str()
			case "count":
				row.Count = r.f64()
			case "max_count":
				row.MaxCount = r.f64()
			case "min":
				row.Min = r.f64()
			case "max":
				row.Max = r.f64()
			case "sum":
				row.Sum = r.f64()
			case "sumsquare":
				row.SumSquare = r.f64()
			case "percentiles":
				start := r.pos
				n := r.uvarint()
				if n > uint64(len(r.b)) {
					r.err = fmt.Errorf("centroid count %d at offset %d exceeds the body", n, start)
				}
				for i := uint64(0); i < n && r.err == nil; i++ {
					m := math.Float32frombits(r.u32())
					w := math.Float32frombits(r.u32())
					row.Centroids = append(row.Centroids, [2]float32{m, w})
				}
				if r.err == nil {
					row.PercRaw = r.b[start:r.pos]
				}
			case "uniq_state":
				start := r.pos
				row.UniqSkip = r.u8()
				n := r.uvarint()
				if n > uint64(len(r.b)) {
					r.err = fmt.Errorf("uniq item count %d at offset %d exceeds the body", n, start)
				}
				for i := uint64(0); i < n && r.err == nil; i++ {
					row.UniqItems = append(row.UniqItems, r.u32())
				}
				if r.err == nil {
					row.UniqRaw = r.b[start:r.pos]
				}
			case "min_host":
				row.MinHost = r.hostArg()
			case "max_host":
				row.MaxHost = r.hostArg()
			case "max_count_host":
				row.MaxCountHost = r.hostArg()
			default:
				if i, ok := aggengColIndex(c, "stag"); ok {
					row.STags[i] = r.str()
				} else if i, ok := aggengColIndex(c, "tag"); ok {
					row.Tags[i] = int32(r.u32())
				} else if r.err == nil {
					r.err = fmt.Errorf("column %q of the INSERT statement is not in the statshouse_v3_incoming schema known to the reader", c)
				}
			}
			if r.err != nil {
				return rows, fmt.Errorf("row %d (starts at byte %d), column %s: %v", len(rows), row.Off, c, r.err)
			}
		}
		row.Len = r.pos - row.Off
		rows = append(rows, row)
	}
	return rows, nil
}

// ---------------------------------------------------------------- the aggregator instance

type aggengConfig struct {
	Name     string           // aggregator host name, also used in file names
	Replica  int              // 1..3
	Mappings map[string]int32 // pre-seeded tag mappings (written through the real chunked-file format)
	Tweak    func(c *ConfigAggregator)
}

type aggengEngine struct {
	Agg      *Aggregator
	CH       *aggengFakeCH
	Replica  int
	Addr     string // RPC address of the aggregator under test
	Addrs    []string
	Dir      string
	HostName string
	HostTag  int32
	holders  []net.Listener
	clients  []rpc.Client
	cmu      sync.Mutex
}

const aggengHostTagValue = 1001

func aggengWriteMappingsFile(path string, mappings map[string]int32) error {
	fp, err := os.OpenFile(path, os.O_CREATE|os.O_RDWR, 0o666)
	if err != nil {
		return err
	}
	defer fp.Close()
	if len(mappings) == 0 {
		return nil
	}
	st := data_model.NewChunkedStorage2File(fp)
	if chunk, err := st.ReadNext(data_model.ChunkedMagicAllMappings); err != nil || len(chunk) != 0 {
		return fmt.Errorf("fresh mappings file not empty: %v", err)
	}
	chunk := st.StartWriteChunk(data_model.ChunkedMagicAllMappings, 0)
	for k, v := range mappings {
		chunk = basictl.StringWriteTL2(chunk, k)
		chunk = basictl.IntWrite(chunk, v)
		if chunk, err = st.FinishItem(chunk); err != nil {
			return err
		}
	}
	return st.FinishWriteChunk(chunk)
}

// aggengStart boots one real aggregator.  dir must be an empty scratch directory.
func aggengStart(dir string, cfg aggengConfig) (*aggengEngine, error) {
	e := &aggengEngine{Dir: dir, Replica: cfg.Replica, HostName: cfg.Name}
	ch, err := aggengStartFakeCH()
	if err != nil {
		return nil, err
	}
	e.CH = ch
	// three addresses; the two foreign replicas are held by listeners that drop every
	// connection, so that the built-in agent of the aggregator cannot reach a foreign process
	var own net.Listener
	for i := 0; i < 3; i++ {
		ln, err := net.Listen("tcp4", "127.0.0.1:0")
		if err != nil {
			return nil, err
		}
		e.Addrs = append(e.Addrs, ln.Addr().String())
		if i == cfg.Replica-1 {
			own = ln
			continue
		}
		e.holders = append(e.holders, ln)
		go func(ln net.Listener) {
			for {
				c, err := ln.Accept()
				if err != nil {
					return
				}
				_ = c.Close()
			}
		}(ln)
	}
	e.Addr = e.Addrs[cfg.Replica-1]

	mc := pcache.NewMappingsCache(data_model.NewChunkedStorageNop(), 1<<20, 86400)
	mc.AddValues(uint32(time.Now().Unix()), []pcache.MappingPair{{Str: cfg.Name, Value: aggengHostTagValue}})
	e.HostTag = aggengHostTagValue
	mpath := filepath.Join(dir, "mappings0")
	if err := aggengWriteMappingsFile(mpath, cfg.Mappings); err != nil {
		return nil, fmt.Errorf("seeding mappings file: %v", err)
	}
	mf, err := os.OpenFile(mpath, os.O_CREATE|os.O_RDWR, 0o666)
	if err != nil {
		return nil, err
	}
	ms, err := metajournal.LoadMappingsFiles(context.Background(), []*os.File{mf}, data_model.JournalDDOSProtectionTimeout, false)
	if err != nil {
		return nil, fmt.Errorf("LoadMappingsFiles: %v", err)
	}
	for k, v := range cfg.Mappings {
		if got, ok := ms.GetValue(k); !ok || got != v {
			return nil, fmt.Errorf("seeded mapping %q=%d not loaded (got %d,%v)", k, v, got, ok)
		}
	}
	fj, err := os.OpenFile(filepath.Join(dir, "journal"), os.O_CREATE|os.O_RDWR, 0o666)
	if err != nil {
		return nil, err
	}
	fjc, err := os.OpenFile(filepath.Join(dir, "journal-compact"), os.O_CREATE|os.O_RDWR, 0o666)
	if err != nil {
		return nil, err
	}
	c := DefaultConfigAggregator()
	c.KHAddr = ch.Addr()
	c.Cluster = "verif"
	c.LocalReplica = cfg.Replica
	c.LocalShard = 1
	c.MetadataAddr = "127.0.0.1:1" // closed port: metadata is unreachable
	c.MappingsFileCount = 1
	c.RemoteInitial.DenyOldAgents = false
	// "insert budget does not bind"
	c.RemoteInitial.InsertBudget = 1 << 24
	c.RemoteInitial.MinInsertBudget = 1 << 40
	if cfg.Tweak != nil {
		cfg.Tweak(&c)
	}
	own.Close() // hand the port to the aggregator
	agg, err := MakeAggregator(fj, fjc, mc, ms, nil, dir, strings.Join(e.Addrs, ","), "", nil, c, cfg.Name, false)
	if err != nil {
		return nil, fmt.Errorf("MakeAggregator: %v", err)
	}
	e.Agg = agg
	// wait until the RPC port accepts
	deadline := time.Now().Add(20 * time.Second)
	for {
		conn, err := net.DialTimeout("tcp4", e.Addr, time.Second)
		if err == nil {
			_ = conn.Close()
			break
		}
		if time.Now().After(deadline) {
			return nil, fmt.Errorf("aggregator RPC port %s does not accept: %v", e.Addr, err)
		}
		time.Sleep(20 * time.Millisecond)
	}
	return e, nil
}

func (e *aggengEngine) Stop() {
	if e.Agg != nil {
		e.Agg.DisableNewInsert()
		e.Agg.WaitInsertsFinish(5 * time.Second)
		e.Agg.ShutdownRPCServer()
	}
	e.cmu.Lock()
	for _, c := range e.clients {
		_ = c.Close()
	}
	e.cmu.Unlock()
	for _, ln := range e.holders {
		_ = ln.Close()
	}
	if e.CH != nil {
		e.CH.Close()
	}
}

// NewClient returns a client with its own connection (the aggregator handles the requests of
// one connection sequentially, so concurrency needs several connections).
func (e *aggengEngine) NewClient() tlstatshouse.Client {
	rc := rpc.NewClient(rpc.ClientWithProtocolVersion(rpc.LatestProtocolVersion), rpc.ClientWithLogf(func(string, ...any) {}))
	e.cmu.Lock()
	e.clients = append(e.clients, rc)
	e.cmu.Unlock()
	return tlstatshouse.Client{Client: rc, Network: "tcp4", Address: e.Addr}
}

type aggengSend struct {
	Time      uint32
	Host      string
	Owner     string
	Historic  bool
	Spare     bool
	Component int32
	Bucket    tlstatshouse.SourceBucket3
}

type aggengSendResult struct {
	Err     error
	Discard bool
	Warning string
	Resp    tlstatshouse.SendSourceBucket3Response
}

func aggengBuildArgs(s aggengSend, replica int) tlstatshouse.SendSourceBucket3 {
	raw := s.Bucket.WriteTL1Boxed(nil)
	frame := compress.CompressAndFrame(raw)
	osz, cd, _ := compress.DeFrame(frame)
	args := tlstatshouse.SendSourceBucket3{Time: s.Time, BuildCommit: "00", OriginalSize: osz, CompressedData: string(cd)}
	args.SetHistoric(s.Historic)
	args.SetSpare(s.Spare)
	comp := s.Component
	if comp == 0 {
		comp = format.TagValueIDComponentAgent
	}
	args.Header = tlstatshouse.CommonProxyHeader{ShardReplica: int32(replica - 1), ShardReplicaTotal: 3, HostName: s.Host, ComponentTag: comp}
	if s.Owner != "" {
		args.Header.SetOwner(s.Owner, &args.FieldsMask)
	}
	return args
}

func (e *aggengEngine) Send(cl tlstatshouse.Client, s aggengSend, timeout time.Duration) aggengSendResult {
	return e.SendArgs(cl, aggengBuildArgs(s, e.Replica), timeout)
}

// SendArgs sends a request that was serialised and compressed beforehand
func (e *aggengEngine) SendArgs(cl tlstatshouse.Client, args tlstatshouse.SendSourceBucket3, timeout time.Duration) aggengSendResult {
	var res aggengSendResult
	ctx, cancel := context.WithTimeout(context.Background(), timeout)
	defer cancel()
	res.Err = cl.SendSourceBucket3(ctx, args, &rpc.InvokeReqExtra{FailIfNoConnection: true}, &res.Resp)
	if res.Err == nil {
		res.Discard = res.Resp.IsSetDiscard()
		res.Warning = res.Resp.Warning
	}
	return res
}

// Window returns the oldest and newest second of the recent window, read under a.mu.
func (e *aggengEngine) Window() (oldest, newest uint32) {
	e.Agg.mu.Lock()
	defer e.Agg.mu.Unlock()
	return e.Agg.recentBuckets[0].time, e.Agg.recentBuckets[len(e.Agg.recentBuckets)-1].time
}

var _ = bytes.Equal

// ---------------------------------------------------------------- crash monitor
//
// The aggregator runs inside the test process.  A fatal runtime error in it (concurrent map
// access after a dropped lock, log.Panicf of the ticker on a contributor in a foreign second)
// kills the process before the harness can write a verdict.  So the unit is executed in a child
// process (the same test binary, same environment); the parent only watches: when the child
// does not finish its result file, the parent records the death as a violation of its own
// class, with the crashing goroutine as witness.

var aggengFrameRe = regexp.MustCompile(`^(github\.com/VKCOM/statshouse/\S+)\(`)

// aggengInChild returns true in the process that must do the real work.
func aggengInChild(t interface {
	Skip(args ...any)
	Logf(format string, args ...any)
}, property, unit, testName string) bool {
	if os.Getenv("VERIF_AGG_CHILD") == "1" || os.Getenv("VERIF_OUT") == "" || os.Getenv("VERIF_SELF") == "" {
		return true
	}
	out := os.Getenv("VERIF_OUT")
	_ = os.Remove(out)
	cmd := exec.Command(os.Getenv("VERIF_SELF"), "-test.run", "^"+testName+"$", "-test.v", "-test.timeout", "0", "-test.count", "1")
	cmd.Env = append(os.Environ(), "VERIF_AGG_CHILD=1")
	cmd.SysProcAttr = &syscall.SysProcAttr{Pdeathsig: syscall.SIGKILL}
	pr, pw, err := os.Pipe()
	if err != nil {
		return true
	}
	cmd.Stdout, cmd.Stderr = pw, pw
	if err := cmd.Start(); err != nil {
		_ = pr.Close()
		_ = pw.Close()
		return true
	}
	_ = pw.Close()
	// copy the child's output through, remember the text from the first fatal line on
	var crash []string
	sc := bufio.NewScanner(pr)
	sc.Buffer(make([]byte, 1<<20), 1<<20)
	inCrash := false
	for sc.Scan() {
		line := sc.Text()
		fmt.Println(line)
		if !inCrash && (strings.HasPrefix(line, "fatal error: ") || strings.HasPrefix(line, "panic: ") || strings.HasPrefix(line, "SIGQUIT") || strings.HasPrefix(line, "unexpected fault address") || strings.Contains(line, "[recovered]")) {
			inCrash = true
		}
		if inCrash && len(crash) < 400 {
			crash = append(crash, line)
		}
	}
	werr := cmd.Wait()
	var res verifkit.Result
	completed := false
	if b, err := os.ReadFile(out); err == nil && json.Unmarshal(b, &res) == nil {
		completed = res.Completed
	}
	if completed {
		return false // the child delivered the verdict
	}
	if res.Property == "" {
		seed, _ := strconv.ParseUint(os.Getenv("VERIF_SEED"), 10, 64)
		res = verifkit.Result{Property: property, Unit: unit, Tier: os.Getenv("VERIF_TIER"), Seed: seed, Counters: map[string]int64{}, NotJudged: map[string]int64{}}
	}
	headline := fmt.Sprintf("child exited (%v) without a crash message", werr)
	if len(crash) > 0 {
		headline = crash[0]
	}
	// the first module frame of the crashing goroutine decides whose fault it is
	frame, harness := "", false
	for i, l := range crash {
		if m := aggengFrameRe.FindStringSubmatch(l); m != nil {
			loc := ""
			if i+1 < len(crash) {
				loc = crash[i+1]
			}
			if frame == "" {
				frame = m[1]
				harness = strings.Contains(loc, "zz_verif") || strings.Contains(loc, "/zzverif/")
			}
			if strings.HasPrefix(l, "github.com") && frame != "" {
				break
			}
		}
		if i > 0 && strings.HasPrefix(l, "goroutine ") && frame != "" {
			break
		}
	}
	class := "exit"
	switch {
	case strings.HasPrefix(headline, "fatal error: concurrent map"):
		class = "concurrent-map-access"
	case strings.HasPrefix(headline, "fatal error: "):
		class = "fatal"
	case strings.HasPrefix(headline, "panic: "):
		class = "panic"
	case strings.HasPrefix(headline, "SIGQUIT"):
		class = "watchdog"
	}
	if frame != "" {
		fn := frame
		if i := strings.LastIndex(fn, "/"); i >= 0 {
			fn = fn[i+1:]
		}
		class += "/" + regexp.MustCompile(`\.func\d+(\.\d+)*$`).ReplaceAllString(fn, "")
	}
	if harness || class == "watchdog" || len(crash) == 0 {
		res.Inconclusive = append(res.Inconclusive, "the unit's child process died in harness code or was killed: "+headline)
	} else {
		key := property + "/crash/" + class
		known := false
		if p := os.Getenv("VERIF_KNOWN"); p != "" {
			if b, err := os.ReadFile(p); err == nil {
				var fs []verifkit.Finding
				if json.Unmarshal(b, &fs) == nil {
					for _, f := range fs {
						known = known || (f.Property == property && f.Key == key && f.Status == "known")
					}
				}
			}
		}
		if len(crash) > 60 {
			crash = crash[:60]
		}
		v := &verifkit.ViolationRec{Key: key, What: "the process running the real aggregator died under the workload: " + headline, Known: known, Count: 1,
			Witness: map[string]any{"first_module_frame": frame, "crash_output": crash}}
		if dir := os.Getenv("VERIF_REPLAY_DIR"); dir != "" && !known {
			_ = os.MkdirAll(dir, 0o755)
			p := filepath.Join(dir, fmt.Sprintf("%s-%s-crash.json", property, unit))
			if b, err := json.MarshalIndent(map[string]any{"property": property, "unit": unit, "seed": res.Seed, "tier": res.Tier, "key": key, "what": v.What, "witness": v.Witness}, "", " "); err == nil {
				if os.WriteFile(p, b, 0o644) == nil {
					v.Replay = p
				}
			}
		}
		res.Violations = append(res.Violations, v)
	}
	res.Completed = true
	if b, err := json.MarshalIndent(res, "", " "); err == nil {
		_ = os.WriteFile(out+".tmp", b, 0o644)
		_ = os.Rename(out+".tmp", out)
	}
	t.Logf("child died: %s", headline)
	return false
}
