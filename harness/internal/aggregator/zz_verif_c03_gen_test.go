//go:build verif

package aggregator

// C03 workload generator and the reference ("plain accumulation") model.
//
// A contribution is one statshouse.multiValue as it travels in a SourceBucket3.  The reference
// never looks at aggregator code: it reads the TL fields that were put on the wire using the
// meaning documented in the TL schema (counter_eq_1, value_min only => all values identical,
// hosts default to max_host / the sending host, ...) and accumulates them per row key.

import (
	"fmt"
	"math"
	"math/rand/v2"
	"sort"
	"strconv"
	"strings"

	"github.com/VKCOM/statshouse/internal/data_model"
	"github.com/VKCOM/statshouse/internal/data_model/gen2/tlstatshouse"
	"github.com/VKCOM/statshouse/internal/format"
)

// ---------------------------------------------------------------- reference model

type c03Host struct {
	I int32
	S string
}

func (h c03Host) empty() bool { return h.I == 0 && h.S == "" }
func (h c03Host) String() string {
	if h.I != 0 {
		return "#" + strconv.Itoa(int(h.I))
	}
	return strconv.Quote(h.S)
}

type c03HostVal struct {
	V float64
	H c03Host
}

// semantic content of one multiValue on the wire
type c03MV struct {
	Count                     float64
	HasValue                  bool
	Min, Max, Sum, SumSq      float64
	Uniq                      []int64 // raw values inserted into the sketch that was sent
	HasDigest                 bool
	DigestW                   float64
	DigestN                   int
	MaxHost, MinHost, CntHost c03Host
}

type c03Acc struct {
	N               int
	Count, CountAbs float64
	HasValue        bool
	Min, Max        float64
	Sum, SumAbs     float64
	SumSq, SumSqAbs float64
	Uniq            map[int64]struct{}
	HasUniq         bool
	HasDigest       bool
	DigestW         float64
	DigestN         int
	MinC, MaxC      []c03HostVal
	CntHosts        map[c03Host]struct{}
	Kinds           map[string]int
}

func (a *c03Acc) add(m *c03MV) {
	if m.Count <= 0 { // "no counter means counter equal to 0": contributes nothing
		return
	}
	a.N++
	a.Count += m.Count
	a.CountAbs += math.Abs(m.Count)
	if a.CntHosts == nil {
		a.CntHosts = map[c03Host]struct{}{}
	}
	a.CntHosts[m.CntHost] = struct{}{}
	if len(m.Uniq) != 0 {
		a.HasUniq = true
		if a.Uniq == nil {
			a.Uniq = map[int64]struct{}{}
		}
		for _, v := range m.Uniq {
			a.Uniq[v] = struct{}{}
		}
	}
	if !m.HasValue {
		return
	}
	if !a.HasValue || m.Min < a.Min {
		a.Min = m.Min
	}
	if !a.HasValue || m.Max > a.Max {
		a.Max = m.Max
	}
	a.HasValue = true
	a.Sum += m.Sum
	a.SumAbs += math.Abs(m.Sum)
	a.SumSq += m.SumSq
	a.SumSqAbs += math.Abs(m.SumSq)
	a.MinC = append(a.MinC, c03HostVal{m.Min, m.MinHost})
	a.MaxC = append(a.MaxC, c03HostVal{m.Max, m.MaxHost})
	if m.HasDigest {
		a.HasDigest = true
		a.DigestW += m.DigestW
		a.DigestN += m.DigestN
	}
}

func (a *c03Acc) merge(b *c03Acc) {
	if b == nil || b.N == 0 {
		return
	}
	a.N += b.N
	a.Count += b.Count
	a.CountAbs += b.CountAbs
	if a.CntHosts == nil {
		a.CntHosts = map[c03Host]struct{}{}
	}
	for h := range b.CntHosts {
		a.CntHosts[h] = struct{}{}
	}
	if b.HasUniq {
		a.HasUniq = true
		if a.Uniq == nil {
			a.Uniq = map[int64]struct{}{}
		}
		for v := range b.Uniq {
			a.Uniq[v] = struct{}{}
		}
	}
	if b.HasValue {
		if !a.HasValue || b.Min < a.Min {
			a.Min = b.Min
		}
		if !a.HasValue || b.Max > a.Max {
			a.Max = b.Max
		}
		a.HasValue = true
		a.Sum += b.Sum
		a.SumAbs += b.SumAbs
		a.SumSq += b.SumSq
		a.SumSqAbs += b.SumSqAbs
		a.MinC = append(a.MinC, b.MinC...)
		a.MaxC = append(a.MaxC, b.MaxC...)
	}
	if b.HasDigest {
		a.HasDigest = true
		a.DigestW += b.DigestW
		a.DigestN += b.DigestN
	}
}

func (a *c03Acc) clone() *c03Acc {
	c := &c03Acc{}
	c.merge(a)
	return c
}

func (a *c03Acc) minHosts() map[c03Host]struct{} {
	res := map[c03Host]struct{}{}
	for _, hv := range a.MinC {
		if hv.V == a.Min {
			res[hv.H] = struct{}{}
		}
	}
	return res
}

func (a *c03Acc) maxHosts() map[c03Host]struct{} {
	res := map[c03Host]struct{}{}
	for _, hv := range a.MaxC {
		if hv.V == a.Max {
			res[hv.H] = struct{}{}
		}
	}
	return res
}

// one expected base key (time, metric, tags, stags) with its tops ("" = tail)
type c03Base struct {
	Key         string
	Time        uint32
	Metric      int32
	Tops        map[string]*c03Acc
	Tainted     bool                // some contribution to it has an unknown fate (RPC error / rejected / budget)
	Sources     map[uint32]struct{} // bucket seconds (args.Time) of the recent contributions
	HistSources map[uint32]struct{} // bucket seconds of the historic contributions
	Kind        string
	Clamped     bool
	FromT       bool // some item reached this row through an explicit (believed) timestamp
}

// canonical row key without the string-top position
func c03BaseKeyString(time uint32, metric int32, tags *[format.MaxTags]int32, stags *[format.MaxTags]string) string {
	var sb strings.Builder
	sb.WriteString(strconv.FormatUint(uint64(time), 10))
	sb.WriteByte('|')
	sb.WriteString(strconv.Itoa(int(metric)))
	for i := 0; i < format.MaxTags; i++ {
		if i == format.StringTopTagIndexV3 {
			continue
		}
		if tags[i] != 0 {
			sb.WriteByte('|')
			sb.WriteString(strconv.Itoa(i))
			sb.WriteByte('=')
			sb.WriteString(strconv.Itoa(int(tags[i])))
		} else if stags[i] != "" {
			sb.WriteByte('|')
			sb.WriteString(strconv.Itoa(i))
			sb.WriteByte('~')
			sb.WriteString(strconv.Quote(stags[i]))
		}
	}
	return sb.String()
}

func c03TopKey(i int32, s string) string {
	if i != 0 {
		return "i:" + strconv.Itoa(int(i))
	}
	if s != "" {
		return "s:" + s
	}
	return ""
}

// ---------------------------------------------------------------- reading a multiValue off the wire

type c03Mapper func(s string) (int32, bool)

func c03NormHost(h c03Host, mp c03Mapper) c03Host {
	if h.I != 0 {
		return c03Host{I: h.I}
	}
	if h.S != "" {
		if m, ok := mp(h.S); ok {
			return c03Host{I: m}
		}
	}
	return h
}

// c03ReadMV gives the meaning of the TL fields (schema comments), not of any Go code that consumes them.
func c03ReadMV(v *tlstatshouse.MultiValue, fm uint32, sender c03Host, uniq []int64, mp c03Mapper) c03MV {
	var m c03MV
	switch {
	case v.IsSetCounterEq1(fm):
		m.Count = 1
	case v.IsSetCounter(fm):
		m.Count = v.Counter
	}
	mx := sender
	if v.IsSetMaxHostTag(fm) || v.IsSetMaxHostStag(fm) {
		mx = c03Host{}
		if v.IsSetMaxHostTag(fm) {
			mx.I = v.MaxHostTag
		}
		if v.IsSetMaxHostStag(fm) {
			mx.S = v.MaxHostStag
		}
	}
	mi := mx
	if v.IsSetMinHostTag(fm) || v.IsSetMinHostStag(fm) {
		mi = c03Host{}
		if v.IsSetMinHostTag(fm) {
			mi.I = v.MinHostTag
		}
		if v.IsSetMinHostStag(fm) {
			mi.S = v.MinHostStag
		}
	}
	mc := mx
	if v.IsSetMaxCounterHostTag(fm) || v.IsSetMaxCounterHostStag(fm) {
		mc = c03Host{}
		if v.IsSetMaxCounterHostTag(fm) {
			mc.I = v.MaxCounterHostTag
		}
		if v.IsSetMaxCounterHostStag(fm) {
			mc.S = v.MaxCounterHostStag
		}
	}
	m.MaxHost, m.MinHost, m.CntHost = c03NormHost(mx, mp), c03NormHost(mi, mp), c03NormHost(mc, mp)
	if v.IsSetUniques(fm) {
		m.Uniq = uniq
	}
	if !v.IsSetValueSet(fm) {
		return m
	}
	m.HasValue = true
	if v.IsSetValueMin(fm) {
		m.Min = v.ValueMin
	}
	if v.IsSetValueMax(fm) {
		m.Max, m.Sum, m.SumSq = v.ValueMax, v.ValueSum, v.ValueSumSquare
	} else { // "simple value (all values identical)"
		m.Max = m.Min
		m.Sum = m.Min * m.Count
		m.SumSq = m.Min * m.Min * m.Count
	}
	if v.IsSetCentroids(fm) {
		for _, c := range v.Centroids {
			if c.Count != 0 {
				m.HasDigest = true
				m.DigestW += float64(c.Count)
				m.DigestN++
			}
		}
	}
	if v.IsSetImplicitCentroid(fm) {
		m.HasDigest = true
		m.DigestW += m.Count
		m.DigestN++
	}
	return m
}

// ---------------------------------------------------------------- generator

const (
	c03KindCounter = iota
	c03KindValue
	c03KindUnique
	c03KindPercentile
	c03KindTopCounter
	c03KindTopValue
	c03KindMixed
	c03KindBigUnique
	c03KindBigDigest
	c03KindTopOverflow
	c03NumKinds
)

// a value whose ClickHouse intHash32 is 0: the sketch keeps it outside its table ("zero item")
const c03ZeroHashValue = 1530889310

var c03KindNames = [...]string{"counter", "value", "unique", "percentile", "top-counter", "top-value", "mixed", "big-unique", "big-digest", "top-overflow"}

type c03KeySpec struct {
	Metric   int32
	Kind     int
	Tags     [format.MaxTags]int32
	STags    [format.MaxTags]string // as sent in skeys (may be a mapped string)
	AliasIdx int                    // tag index that is sent either as mapped string or as its int value (-1: none)
	AliasStr string
	AliasInt int32
	Universe int // unique kinds: values are drawn from [1..Universe] (* Stride)
	Stride   int64
	TopPool  int
	UseT     bool // items of this key sometimes carry an explicit timestamp
	ZeroHash bool // unique kinds: the value with 32-bit hash 0 is sometimes among the values
	Invalid  bool // carries a string tag that is not a valid tag value: the aggregator must drop the item
}

type c03Gen struct {
	rnd      *rand.Rand
	mappings map[string]int32
	mapped   []string // sorted names of mapped tag strings usable as tag values
	keys     []c03KeySpec
	pct      *format.MetricMetaValue
	plain    *format.MetricMetaValue
}

var c03StagPool = []string{"a", "b", "production", "язык", "with space", "x-\U0001F600", strings.Repeat("L", 128), strings.Repeat("m", 127), "0", "-1", "2147483648"}

func c03NewGen(rnd *rand.Rand, mappings map[string]int32, nKeys int, thorough bool) *c03Gen {
	g := &c03Gen{rnd: rnd, mappings: mappings, pct: &format.MetricMetaValue{HasPercentiles: true}, plain: &format.MetricMetaValue{}}
	for k := range mappings {
		if strings.HasPrefix(k, "mapped-tag-") {
			g.mapped = append(g.mapped, k)
		}
	}
	sort.Strings(g.mapped)
	for j := 0; j < nKeys; j++ {
		var ks c03KeySpec
		ks.Metric = int32(1000 + j%17 + 1)
		ks.Kind = j % c03KindBigUnique
		// the expensive kinds: a bounded number of keys whatever the size of the pool
		if j%41 == 7 && j < 330 {
			ks.Kind = c03KindBigUnique
		}
		if j%41 == 11 && j < 500 {
			ks.Kind = c03KindBigDigest
		}
		if j%101 == 50 && j < 400 {
			ks.Kind = c03KindTopOverflow
		}
		ks.ZeroHash = j%5 == 2
		ks.AliasIdx = -1
		ks.Tags[1] = int32(j + 1) // makes the key distinct
		nt := rnd.IntN(4)
		for t := 0; t < nt; t++ {
			idx := []int{0, 2, 3, 4, 5, 15, 16, 17, 31, 32, 45, 46}[rnd.IntN(12)]
			switch rnd.IntN(6) {
			case 0:
				ks.Tags[idx] = -int32(rnd.IntN(1000)) - 1
			case 1:
				ks.Tags[idx] = math.MaxInt32 - int32(rnd.IntN(3))
			case 2:
				ks.Tags[idx] = math.MinInt32 + int32(rnd.IntN(3))
			default:
				ks.Tags[idx] = int32(rnd.IntN(100000)) + 1
			}
		}
		ns := rnd.IntN(3)
		for t := 0; t < ns; t++ {
			idx := []int{6, 7, 8, 18, 33, 44}[rnd.IntN(6)]
			ks.STags[idx] = c03StagPool[rnd.IntN(len(c03StagPool))]
		}
		if len(g.mapped) > 0 && rnd.IntN(4) == 0 {
			ks.AliasIdx = []int{9, 10, 20, 40}[rnd.IntN(4)]
			ks.AliasStr = g.mapped[rnd.IntN(len(g.mapped))]
			ks.AliasInt = mappings[ks.AliasStr]
		}
		switch ks.Kind {
		case c03KindUnique, c03KindMixed:
			ks.Universe = []int{3, 40, 300, 3000}[rnd.IntN(4)]
			ks.Stride = []int64{1, 1, 7919, -104729, 1 << 33}[rnd.IntN(5)]
		case c03KindBigUnique:
			ks.Universe = 24000
			if thorough {
				ks.Universe = []int{40000, 66000, 70000}[rnd.IntN(3)]
			}
			ks.Stride = []int64{1, 2654435761}[rnd.IntN(2)]
		}
		ks.TopPool = []int{3, 12, 30, 60}[rnd.IntN(4)]
		if ks.Kind == c03KindTopOverflow {
			ks.TopPool = 2200 // more distinct values than the aggregator keeps per key and second
		}
		ks.UseT = j%10 == 4
		if j%97 == 13 {
			ks.Invalid = true
			ks.STags[12] = []string{" lead", "trail ", "two  spaces", "tab\there", "bad\xffutf", strings.Repeat("z", 129)}[rnd.IntN(6)]
		}
		g.keys = append(g.keys, ks)
	}
	return g
}

func (g *c03Gen) mapper(s string) (int32, bool) {
	v, ok := g.mappings[s]
	return v, ok
}

// dyadic value: all sums of such values and of their squares are exact in float64
func (g *c03Gen) val() float64 {
	return float64(g.rnd.IntN(8001)-4000) / 4
}

func (g *c03Gen) cnt() float64 {
	switch g.rnd.IntN(12) {
	case 0:
		return 0.5
	case 1:
		return 2.25
	case 2:
		return float64(1 + g.rnd.IntN(1000000))
	case 3, 4, 5:
		return 1
	}
	return float64(1 + g.rnd.IntN(6))
}

type c03Contribution struct {
	Top string // "" = tail
	MV  c03MV
}

type c03Item struct {
	KeyIdx  int
	TL      tlstatshouse.MultiItem
	TRel    int64 // item.T relative to the bucket time when HasT
	HasT    bool
	Contrib []c03Contribution
	Dropped bool // invalid string tag: must not produce any row
}

// hosts: explicit host fields on a multiValue
func (g *c03Gen) decorateHosts(v *tlstatshouse.MultiValue, fm *uint32) {
	switch g.rnd.IntN(14) {
	case 0:
		v.SetMaxHostTag(int32(7000+g.rnd.IntN(5)), fm)
	case 6: // host ids whose little-endian bytes end with non-zero / 0xff bytes
		v.SetMaxHostTag([]int32{-3, 0x12345678, math.MinInt32, math.MaxInt32, 0x01000000}[g.rnd.IntN(5)], fm)
	case 1:
		v.SetMaxHostStag("explicit-host-"+strconv.Itoa(g.rnd.IntN(5)), fm)
	case 2:
		v.SetMaxHostStag("mapped-host-"+strconv.Itoa(g.rnd.IntN(3)), fm)
	case 3:
		v.SetMaxHostTag(int32(7000+g.rnd.IntN(5)), fm)
		v.SetMinHostTag(int32(7100+g.rnd.IntN(5)), fm)
	case 4:
		v.SetMinHostStag("explicit-minhost-"+strconv.Itoa(g.rnd.IntN(5)), fm)
		v.SetMaxCounterHostTag(int32(7200+g.rnd.IntN(5)), fm)
	case 5:
		v.SetMaxCounterHostStag("explicit-cnthost-"+strconv.Itoa(g.rnd.IntN(5)), fm)
	}
}

func (g *c03Gen) mvCounter(v *tlstatshouse.MultiValue, fm *uint32) {
	c := g.cnt()
	if c == 1 && g.rnd.IntN(4) != 0 {
		v.SetCounterEq1(true, fm)
	} else {
		v.SetCounter(c, fm)
	}
}

// value built the way the agent builds it (MultiValue + MultiValueToTL) or by hand
func (g *c03Gen) mvValue(v *tlstatshouse.MultiValue, fm *uint32) {
	switch g.rnd.IntN(5) {
	case 0: // simple value by hand: only value_min, counter c
		g.mvCounter(v, fm)
		v.SetValueSet(true, fm)
		if x := g.val(); x != 0 {
			v.SetValueMin(x, fm)
		}
	case 1: // complex value by hand
		n := 2 + g.rnd.IntN(5)
		var mn, mx, su, sq float64
		for i := 0; i < n; i++ {
			x := g.val()
			if i == 0 || x < mn {
				mn = x
			}
			if i == 0 || x > mx {
				mx = x
			}
			su += x
			sq += x * x
		}
		v.SetCounter(float64(n), fm)
		v.SetValueSet(true, fm)
		if mn != 0 {
			v.SetValueMin(mn, fm)
		}
		v.SetValueMax(mx, fm)
		v.SetValueSum(su, fm)
		v.SetValueSumSquare(sq, fm)
	default: // the agent's own path
		var mv data_model.MultiValue
		n := 1 + g.rnd.IntN(6)
		for i := 0; i < n; i++ {
			mv.AddValueCounter(nil, g.val(), g.cnt())
		}
		_ = mv.MultiValueToTL(g.plain, v, 1, fm, nil)
	}
}

func (g *c03Gen) mvUnique(ks *c03KeySpec, v *tlstatshouse.MultiValue, fm *uint32) []int64 {
	n := 1 + g.rnd.IntN(min(ks.Universe, 60))
	if ks.Kind == c03KindBigUnique {
		n = ks.Universe/8 + g.rnd.IntN(ks.Universe/4)
	}
	hs := make([]int64, n)
	for i := range hs {
		hs[i] = int64(1+g.rnd.IntN(ks.Universe)) * ks.Stride
	}
	if ks.ZeroHash && g.rnd.IntN(2) == 0 {
		hs[g.rnd.IntN(len(hs))] = c03ZeroHashValue
	}
	var mv data_model.MultiValue
	cnt := float64(n)
	if g.rnd.IntN(5) == 0 {
		cnt = float64(n * (2 + g.rnd.IntN(3)))
	}
	mv.ApplyUnique(nil, hs, cnt, data_model.TagUnion{})
	_ = mv.MultiValueToTL(g.plain, v, 1, fm, nil)
	return hs
}

func (g *c03Gen) mvPercentile(ks *c03KeySpec, v *tlstatshouse.MultiValue, fm *uint32) {
	switch {
	case ks.Kind == c03KindBigDigest:
		// many distinct values in one contribution, sent as explicit centroids
		n := 150 + g.rnd.IntN(400)
		var cc []tlstatshouse.CentroidFloat
		var mn, mx, su, sq, tot float64
		for i := 0; i < n; i++ {
			x := float64(g.rnd.IntN(1<<20)-(1<<19)) / 8 // exactly representable in float32
			w := float64(1 + g.rnd.IntN(3))
			if g.rnd.IntN(40) == 0 {
				w = 0 // zero-weight centroid: ignored by the consumer
			}
			cc = append(cc, tlstatshouse.CentroidFloat{Value: float32(x), Count: float32(w)})
			if w == 0 {
				continue
			}
			if tot == 0 || x < mn {
				mn = x
			}
			if tot == 0 || x > mx {
				mx = x
			}
			su += x * w
			sq += x * x * w
			tot += w
		}
		v.SetCounter(tot, fm)
		v.SetValueSet(true, fm)
		if mn != 0 {
			v.SetValueMin(mn, fm)
		}
		v.SetValueMax(mx, fm)
		v.SetValueSum(su, fm)
		v.SetValueSumSquare(sq, fm)
		v.SetCentroids(cc, fm)
	case g.rnd.IntN(6) == 0: // implicit centroid by hand
		g.mvCounter(v, fm)
		v.SetValueSet(true, fm)
		if x := g.val(); x != 0 {
			v.SetValueMin(x, fm)
		}
		v.SetImplicitCentroid(true, fm)
	default: // the agent's own path
		var mv data_model.MultiValue
		n := 1 + g.rnd.IntN(12)
		for i := 0; i < n; i++ {
			mv.AddValueCounterHostPercentile(nil, g.val(), float64(1+g.rnd.IntN(3)), data_model.TagUnion{}, data_model.AgentPercentileCompression)
		}
		_ = mv.MultiValueToTL(g.pct, v, 1, fm, nil)
	}
}

// fill builds one multiValue of the given elementary kind and returns the raw unique values (if any)
func (g *c03Gen) fill(ks *c03KeySpec, kind int, v *tlstatshouse.MultiValue, fm *uint32) []int64 {
	var uq []int64
	switch kind {
	case c03KindCounter, c03KindTopCounter:
		g.mvCounter(v, fm)
	case c03KindValue, c03KindTopValue:
		g.mvValue(v, fm)
	case c03KindUnique, c03KindBigUnique:
		uq = g.mvUnique(ks, v, fm)
	case c03KindPercentile, c03KindBigDigest:
		g.mvPercentile(ks, v, fm)
	}
	g.decorateHosts(v, fm)
	return uq
}

// item builds the item key ki as host `sender` would send it
func (g *c03Gen) item(ki int, sender c03Host) c03Item {
	ks := &g.keys[ki]
	it := c03Item{KeyIdx: ki, Dropped: ks.Invalid}
	var k data_model.Key
	k.Metric = ks.Metric
	k.Tags = ks.Tags
	k.STags = ks.STags
	if ks.AliasIdx >= 0 {
		if g.rnd.IntN(2) == 0 {
			k.Tags[ks.AliasIdx] = ks.AliasInt
		} else {
			k.STags[ks.AliasIdx] = ks.AliasStr
		}
	}
	it.TL = k.TLMultiItemFromKey(0)
	tsel := 100
	if ks.UseT {
		tsel = g.rnd.IntN(12)
	}
	switch tsel {
	case 0, 1:
		it.HasT, it.TRel = true, -int64(1+g.rnd.IntN(3))
	case 2:
		it.HasT, it.TRel = true, 0
	case 3:
		it.HasT, it.TRel = true, int64(1+g.rnd.IntN(30)) // future: clamped to the bucket second
	case 4:
		it.HasT, it.TRel = true, -int64(data_model.BelieveTimestampWindow)-1-int64(g.rnd.IntN(1000)) // too old: clamped
	case 5:
		it.HasT, it.TRel = true, -int64(data_model.BelieveTimestampWindow) // oldest believed second
	}
	mp := g.mapper
	addTail := func(kind int) {
		uq := g.fill(ks, kind, &it.TL.Tail, &it.TL.FieldsMask)
		it.Contrib = append(it.Contrib, c03Contribution{Top: "", MV: c03ReadMV(&it.TL.Tail, it.TL.FieldsMask, sender, uq, mp)})
	}
	addTops := func(kind int) {
		n := 1 + g.rnd.IntN(min(ks.TopPool, 7))
		if ks.Kind == c03KindTopOverflow {
			n = 170 + g.rnd.IntN(60)
		}
		var top []tlstatshouse.TopElement
		lastTi := -1
		for s := 0; s < n; s++ {
			// skewed choice: low indices are heavy hitters
			ti := g.rnd.IntN(ks.TopPool)
			if g.rnd.IntN(2) == 0 && ks.Kind != c03KindTopOverflow {
				ti = g.rnd.IntN(1 + ti)
			}
			if lastTi >= 0 && g.rnd.IntN(25) == 0 {
				ti = lastTi // the same top value twice in one item
			}
			lastTi = ti
			var el tlstatshouse.TopElement
			switch {
			case ti%11 == 3 && len(g.mapped) > 0: // a mapped string, sent as string or as its value
				name := g.mapped[ti%len(g.mapped)]
				if g.rnd.IntN(2) == 0 {
					el.Stag = name
				} else {
					el.SetTag(g.mappings[name])
				}
			case ti%11 == 5:
				el.SetTag(int32(500000 + ti))
			default:
				el.Stag = "top" + strconv.Itoa(ti)
			}
			uq := g.fill(ks, kind, &el.Value, &el.FieldsMask)
			if g.rnd.IntN(30) == 0 { // explicit zero counter: the element carries nothing, whatever else it says
				el.FieldsMask &^= 1 << 1
				el.Value.SetCounter(0, &el.FieldsMask)
			}
			topKey := c03TopKey(0, el.Stag)
			if el.IsSetTag() && el.Tag != 0 {
				topKey = c03TopKey(el.Tag, "")
			} else if m, ok := mp(el.Stag); ok {
				topKey = c03TopKey(m, "")
			}
			it.Contrib = append(it.Contrib, c03Contribution{Top: topKey, MV: c03ReadMV(&el.Value, el.FieldsMask, sender, uq, mp)})
			top = append(top, el)
		}
		it.TL.SetTop(top)
	}
	switch ks.Kind {
	case c03KindTopCounter, c03KindTopOverflow:
		addTops(c03KindTopCounter)
		if g.rnd.IntN(3) == 0 {
			addTail(c03KindCounter)
		}
	case c03KindTopValue:
		addTops(c03KindTopValue)
		if g.rnd.IntN(3) == 0 {
			addTail(c03KindValue)
		}
	case c03KindMixed:
		// the same row fed with different kinds by different senders
		addTail([]int{c03KindCounter, c03KindValue, c03KindUnique, c03KindPercentile}[g.rnd.IntN(4)])
		if g.rnd.IntN(4) == 0 {
			addTops([]int{c03KindTopCounter, c03KindTopValue, c03KindUnique}[g.rnd.IntN(3)])
		}
	default:
		addTail(ks.Kind)
	}
	return it
}

// expectedKey computes the row base key of an item sent in a bucket of second bucketTime
func (g *c03Gen) expectedKey(it *c03Item, bucketTime uint32) (key string, rowTime uint32, clamped bool) {
	rowTime = bucketTime
	if it.HasT {
		t := int64(bucketTime) + it.TRel
		switch {
		case t > int64(bucketTime):
			clamped = true
		case t < int64(bucketTime)-int64(data_model.BelieveTimestampWindow):
			clamped = true
		default:
			rowTime = uint32(t)
		}
	}
	var tags [format.MaxTags]int32
	var stags [format.MaxTags]string
	copy(tags[:], it.TL.Keys)
	for i, s := range it.TL.Skeys {
		if s == "" {
			continue
		}
		if m, ok := g.mappings[s]; ok {
			tags[i] = m
		} else {
			stags[i] = s
		}
	}
	return c03BaseKeyString(rowTime, it.TL.Metric, &tags, &stags), rowTime, clamped
}

func c03HostSetString(m map[c03Host]struct{}) string {
	var s []string
	for h := range m {
		s = append(s, h.String())
	}
	sort.Strings(s)
	if len(s) > 12 {
		s = append(s[:12], fmt.Sprintf("... %d more", len(s)-12))
	}
	return strings.Join(s, ",")
}
