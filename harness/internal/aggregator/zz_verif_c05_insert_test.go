//go:build verif

package aggregator

// C05, unit "agg_insert": the aggregator's insert encoder must scale what is per event
// (count, sum, sum of squares, centroid weights) by the row's sample factor and leave
// min / max / host arguments / the unique sketch alone.
//
// Layer 1 drives appendKeys + multiValueMarshal (what goInsert's insertItem calls per row)
// with chosen factors.  Layer 2 drives the whole rowDataMarshalAppendPositions of a stub
// Aggregator (no network, no goroutines) over buckets that do not fit a binding insert
// budget, so the factors are the ones the real sampler hands to the encoder.
// Bodies are read by the independent RowBinary reader of zz_verif_aggengine_test.go and the
// state columns by the API's column readers.

import (
	"bytes"
	"fmt"
	"math"
	mrand "math/rand/v2"
	"sort"
	"testing"

	"github.com/ClickHouse/ch-go/proto"
	"pgregory.net/rand"

	"github.com/VKCOM/statshouse/internal/chutil"
	"github.com/VKCOM/statshouse/internal/data_model"
	"github.com/VKCOM/statshouse/internal/format"
	"github.com/VKCOM/statshouse/internal/metajournal"
	"github.com/VKCOM/statshouse/internal/zzverif/verifkit"
)

const (
	c05KindCounter = iota
	c05KindValue
	c05KindUnique
	c05KindPercentile
	c05NumKinds
)

var c05KindNames = [...]string{"counter", "value", "unique", "percentile"}

// what was fed into one MultiValue, kept outside of it
type c05Truth struct {
	Kind                 int
	Count                float64
	HasValue             bool
	Min, Max, Sum, SumSq float64
	Distinct             int
	DigestW              float64 // total weight given to the digest (0: no digest)
	Host                 int32
}

func c05Val(rnd *mrand.Rand) float64 { return float64(rnd.IntN(8001)-4000) / 4 }

// c05Fill feeds a MultiValue through the real accumulation methods and returns the truth
func c05Fill(rnd *mrand.Rand, rng *rand.Rand, mv *data_model.MultiValue, kind int, host int32) c05Truth {
	t := c05Truth{Kind: kind, Host: host}
	h := data_model.TagUnion{I: host}
	addV := func(v, c float64) {
		if !t.HasValue || v < t.Min {
			t.Min = v
		}
		if !t.HasValue || v > t.Max {
			t.Max = v
		}
		t.HasValue = true
		t.Sum += v * c
		t.SumSq += v * v * c
		t.Count += c
	}
	switch kind {
	case c05KindCounter:
		c := []float64{1, 2, 5, 0.5, 2.25, 1000, 123456}[rnd.IntN(7)]
		mv.AddCounterHost(rng, c, h)
		t.Count = c
	case c05KindValue:
		n := 1 + rnd.IntN(6)
		same := rnd.IntN(4) == 0
		v0 := c05Val(rnd)
		for i := 0; i < n; i++ {
			v, c := c05Val(rnd), float64(1+rnd.IntN(4))
			if same {
				v = v0
			}
			mv.AddValueCounterHost(rng, v, c, h)
			addV(v, c)
		}
	case c05KindUnique:
		n := 1 + rnd.IntN(300)
		hs := make([]int64, n)
		set := map[int64]struct{}{}
		for i := range hs {
			hs[i] = int64(1 + rnd.IntN(2000))
			set[hs[i]] = struct{}{}
		}
		mv.ApplyUnique(rng, hs, float64(n), h)
		for _, x := range hs {
			addV(float64(x), 1)
		}
		t.Distinct = len(set)
	case c05KindPercentile:
		n := 2 + rnd.IntN(40)
		for i := 0; i < n; i++ {
			v, c := c05Val(rnd), float64(1+rnd.IntN(3))
			mv.AddValueCounterHostPercentile(rng, v, c, h, data_model.AggregatorPercentileCompression)
			addV(v, c)
		}
		if mv.ValueTDigest != nil {
			t.DigestW = t.Count
		}
	}
	return t
}

type c05Dec struct {
	UniqSize  uint64
	UniqItems int
	CentW     float64
	CentN     int
	MinHost   data_model.ArgMinMaxStringFloat32
	MaxHost   data_model.ArgMinMaxStringFloat32
	CntHost   data_model.ArgMinMaxStringFloat32
}

func c05EOF(rd *proto.Reader) bool {
	_, err := rd.ReadByte()
	return err != nil
}

// state columns of one row through the API's readers; every reader must consume exactly its bytes
func c05Decode(r *verifkit.Run, row *aggengRow, wit func() map[string]any) (c05Dec, bool) {
	var d c05Dec
	ok := true
	bad := func(field, what string) {
		ok = false
		r.Violation("C05/insert-scaling/decode-"+field, what, wit())
	}
	var cu chutil.ColUnique
	rd := proto.NewReader(bytes.NewReader(row.UniqRaw))
	if err := cu.DecodeColumn(rd, 1); err != nil || !c05EOF(rd) {
		bad("uniq_state", fmt.Sprintf("chutil.ColUnique does not consume exactly the written uniq_state (err=%v)", err))
	} else {
		d.UniqSize, d.UniqItems = cu[0].Size(false), cu[0].ItemsCount()
	}
	var ct chutil.ColTDigest
	rd = proto.NewReader(bytes.NewReader(row.PercRaw))
	if err := ct.DecodeColumn(rd, 1); err != nil || !c05EOF(rd) {
		bad("percentiles", fmt.Sprintf("chutil.ColTDigest does not consume exactly the written percentiles (err=%v)", err))
	} else {
		for _, c := range ct[0].Centroids() {
			d.CentW += c.Weight
			d.CentN++
		}
	}
	var cmin chutil.ColArgMinStringFloat32
	rd = proto.NewReader(bytes.NewReader(row.MinHost.Raw))
	if err := cmin.DecodeColumn(rd, 1); err != nil || !c05EOF(rd) {
		bad("min_host", fmt.Sprintf("argMin reader does not consume exactly the written min_host (err=%v)", err))
	} else {
		d.MinHost = cmin[0].ArgMinMaxStringFloat32
	}
	for i, raw := range [][]byte{row.MaxHost.Raw, row.MaxCountHost.Raw} {
		var cmax chutil.ColArgMaxStringFloat32
		rd = proto.NewReader(bytes.NewReader(raw))
		name := []string{"max_host", "max_count_host"}[i]
		if err := cmax.DecodeColumn(rd, 1); err != nil || !c05EOF(rd) {
			bad(name, fmt.Sprintf("argMax reader does not consume exactly the written %s (err=%v)", name, err))
		} else if i == 0 {
			d.MaxHost = cmax[0].ArgMinMaxStringFloat32
		} else {
			d.CntHost = cmax[0].ArgMinMaxStringFloat32
		}
	}
	return d, ok
}

func c05Rel(got, want float64) bool {
	if got == want {
		return true
	}
	return math.Abs(got-want) <= 1e-9*math.Max(math.Abs(want), math.Abs(got))
}

// c05Compare judges one inserted row against the truth and the factor the encoder was given
func c05Compare(r *verifkit.Run, layer string, row *aggengRow, t *c05Truth, sf float64, extra map[string]any) {
	wit := func() map[string]any {
		w := map[string]any{"layer": layer, "kind": c05KindNames[t.Kind], "sample_factor": sf,
			"truth": map[string]any{"count": t.Count, "min": t.Min, "max": t.Max, "sum": t.Sum, "sumsquare": t.SumSq, "distinct": t.Distinct, "digest_weight": t.DigestW, "host": t.Host},
			"row":   map[string]any{"metric": row.Metric, "time": row.Time, "count": row.Count, "max_count": row.MaxCount, "min": row.Min, "max": row.Max, "sum": row.Sum, "sumsquare": row.SumSquare, "centroids": len(row.Centroids), "uniq_items": len(row.UniqItems)}}
		for k, v := range extra {
			w[k] = v
		}
		return w
	}
	cls := "/" + c05KindNames[t.Kind]
	if !c05Rel(row.Count, t.Count*sf) {
		r.Violation("C05/insert-scaling/count"+cls, fmt.Sprintf("inserted count %v, true count %v x sample factor %v = %v", row.Count, t.Count, sf, t.Count*sf), wit())
	}
	if !c05Rel(row.MaxCount, t.Count*sf) {
		r.Violation("C05/insert-scaling/max_count"+cls, fmt.Sprintf("inserted max_count %v, true count %v x sample factor %v = %v", row.MaxCount, t.Count, sf, t.Count*sf), wit())
	}
	if t.HasValue {
		if !c05Rel(row.Sum, t.Sum*sf) {
			r.Violation("C05/insert-scaling/sum"+cls, fmt.Sprintf("inserted sum %v, true sum %v x sample factor %v = %v", row.Sum, t.Sum, sf, t.Sum*sf), wit())
		}
		if !c05Rel(row.SumSquare, t.SumSq*sf) {
			r.Violation("C05/insert-scaling/sumsquare"+cls, fmt.Sprintf("inserted sumsquare %v, true sum of squares %v x sample factor %v = %v", row.SumSquare, t.SumSq, sf, t.SumSq*sf), wit())
		}
		if row.Min != t.Min {
			r.Violation("C05/insert-scaling/min"+cls, fmt.Sprintf("inserted min %v, true min %v (must not depend on the sample factor %v)", row.Min, t.Min, sf), wit())
		}
		if row.Max != t.Max {
			r.Violation("C05/insert-scaling/max"+cls, fmt.Sprintf("inserted max %v, true max %v (must not depend on the sample factor %v)", row.Max, t.Max, sf), wit())
		}
	} else if row.Sum != 0 || row.SumSquare != 0 || row.Min != 0 || row.Max != 0 {
		r.Violation("C05/insert-scaling/value-on-counter"+cls, "counter row carries min/max/sum/sumsquare", wit())
	}
	d, ok := c05Decode(r, row, wit)
	if !ok {
		return
	}
	// unique sketch: unchanged by the factor
	if t.Distinct > 0 {
		if d.UniqSize != uint64(t.Distinct) || row.UniqSkip != 0 {
			r.Violation("C05/insert-scaling/uniq_state"+cls, fmt.Sprintf("API-decoded sketch size %d (skip degree %d), %d distinct values were inserted; the sketch must not depend on the sample factor %v", d.UniqSize, row.UniqSkip, t.Distinct, sf), wit())
		}
	} else if d.UniqItems != 0 {
		r.Violation("C05/insert-scaling/uniq_state"+cls, fmt.Sprintf("sketch with %d items on a row without unique values", d.UniqItems), wit())
	}
	// centroid weights: per event
	if t.DigestW > 0 {
		want := t.DigestW * sf
		if math.Abs(d.CentW-want) > 1e-5*want {
			r.Violation("C05/insert-scaling/centroid-weights"+cls, fmt.Sprintf("API-decoded centroid weights sum to %v, true weight %v x sample factor %v = %v", d.CentW, t.DigestW, sf, want), wit())
		}
		for _, c := range row.Centroids {
			if float64(c[0]) < t.Min-1e-3 || float64(c[0]) > t.Max+1e-3 {
				r.Violation("C05/insert-scaling/centroid-means"+cls, fmt.Sprintf("centroid mean %v outside [min,max]=[%v,%v]: means must not be scaled", c[0], t.Min, t.Max), wit())
				break
			}
		}
	} else if d.CentN != 0 {
		r.Violation("C05/insert-scaling/centroid-weights"+cls, fmt.Sprintf("%d centroids on a row without a digest", d.CentN), wit())
	}
	// host arguments: unchanged
	hostOK := func(a data_model.ArgMinMaxStringFloat32) bool { return a.AsInt32 == t.Host && a.AsString == "" }
	if t.HasValue {
		if !hostOK(d.MinHost) {
			r.Violation("C05/insert-scaling/min_host"+cls, fmt.Sprintf("min_host argument %d/%q, the only contributing host is %d", d.MinHost.AsInt32, d.MinHost.AsString, t.Host), wit())
		}
		if !hostOK(d.MaxHost) {
			r.Violation("C05/insert-scaling/max_host"+cls, fmt.Sprintf("max_host argument %d/%q, the only contributing host is %d", d.MaxHost.AsInt32, d.MaxHost.AsString, t.Host), wit())
		}
	} else if !d.MinHost.Empty() || !d.MaxHost.Empty() {
		r.Violation("C05/insert-scaling/min_host"+cls, "min_host/max_host set on a row without values", wit())
	}
	if !hostOK(d.CntHost) {
		r.Violation("C05/insert-scaling/max_count_host"+cls, fmt.Sprintf("max_count_host argument %d/%q, the only contributing host is %d", d.CntHost.AsInt32, d.CntHost.AsString, t.Host), wit())
	}
}

func c05Columns(r *verifkit.Run) []string {
	m := aggengInsertRe.FindStringSubmatch("INSERT INTO " + getTableDesc() + "  FORMAT RowBinary")
	if m == nil {
		r.Inconclusive("getTableDesc() is not of the form table(col,...): " + getTableDesc())
		return nil
	}
	var cols []string
	for _, c := range bytes.Split([]byte(m[2]), []byte(",")) {
		cols = append(cols, string(bytes.TrimSpace(c)))
	}
	return cols
}

func TestVerifC05AggInsert(t *testing.T) {
	r := verifkit.Start(t, "C05", "agg_insert")
	defer r.Finish()
	r.SetRule("agg_insert: (1) random MultiValues of kind counter / value / unique / percentile, as tail and as string-top rows, encoded by appendKeys+multiValueMarshal with sample factors {1, 1.5, 2, 3.0000001, 7.25, 1000, 1e6, random}; (2) buckets of 4 000-12 000 items of 8 metrics marshalled by rowDataMarshalAppendPositions of a stub aggregator whose insert budget binds, factors chosen by the real sampler. A case = one inserted row; non-trivial = sample factor > 1; distinct = (kind, factor, truth).")
	r.Assume("agg_insert: only the statshouse_v3_incoming encoder exists in internal/aggregator (getTableDesc); user metrics have default meta (no skip_sum_square)")
	cols := c05Columns(r)
	if cols == nil {
		return
	}
	rnd := r.Rand("agg_insert")
	rng := rand.New(r.SubSeed("agg_insert/pg"))
	storage := metajournal.MakeMetricsStorage(nil)

	// ---------------- layer 1: the row encoder with chosen factors
	factors := []float64{1, 1.5, 2, 3.0000001, 7.25, 1000, 1e6}
	n1 := r.N(4000, 120000)
	for i := 0; i < n1; i++ {
		appendCtx := appendContext{metricCache: makeMetricCache(storage), unknownTags: map[string]createMappingExtra{}, bucketUnknownTags: map[string]createMappingExtra{}}
		sf := factors[i%len(factors)]
		if rnd.IntN(4) == 0 {
			sf = 1 + rnd.Float64()*float64(int(1)<<rnd.IntN(12))
		}
		kind := rnd.IntN(c05NumKinds)
		var k data_model.Key
		k.Timestamp = 1700000000 + uint32(rnd.IntN(1000))
		k.Metric = int32(2000 + kind)
		k.Tags[1] = int32(i + 1)
		k.Tags[rnd.IntN(47)] = int32(rnd.Uint32() | 1)
		var mv data_model.MultiValue
		host := int32(5000 + rnd.IntN(50))
		truth := c05Fill(rnd, rng, &mv, kind, host)
		top := data_model.TagUnion{}
		switch rnd.IntN(4) {
		case 0:
			top.S = fmt.Sprintf("top%d", rnd.IntN(100))
		case 1:
			top.I = int32(1 + rnd.IntN(100000))
		}
		body := appendKeys(nil, &k, top, appendCtx)
		body = multiValueMarshal(rng, k.Metric, body, &mv, sf, appendCtx)
		rows, err := aggengParseBody(aggengInsert{Columns: cols, Body: body})
		if err != nil || len(rows) != 1 {
			r.Violation("C05/insert-scaling/row-bytes", fmt.Sprintf("appendKeys+multiValueMarshal wrote %d bytes that are not exactly one row of %s: rows=%d err=%v", len(body), getTableDesc()[:22], len(rows), err),
				map[string]any{"kind": c05KindNames[kind], "sample_factor": sf, "body_hex": fmt.Sprintf("%x", body)})
			continue
		}
		row := &rows[0]
		if row.Metric != k.Metric || row.Time != k.Timestamp || row.Tags[1] != k.Tags[1] ||
			row.Tags[format.StringTopTagIndexV3] != top.I || row.STags[format.StringTopTagIndexV3] != top.S {
			r.Violation("C05/insert-scaling/key", "row key differs from the key given to appendKeys", map[string]any{"key": fmt.Sprintf("%+v", k), "top": fmt.Sprintf("%+v", top), "row_metric": row.Metric, "row_time": row.Time})
		}
		c05Compare(r, "multiValueMarshal", row, &truth, sf, nil)
		r.Count("layer1.rows", 1)
		r.Count("layer1.kind."+c05KindNames[kind], 1)
		if i < 2 {
			r.Sample(map[string]any{"layer": "multiValueMarshal", "kind": c05KindNames[kind], "sample_factor": sf, "true_count": truth.Count, "true_sum": truth.Sum, "true_sumsquare": truth.SumSq,
				"row_count": row.Count, "row_sum": row.Sum, "row_sumsquare": row.SumSquare})
		}
		r.Case(sf > 1, fmt.Sprintf("1|%d|%v|%v|%v|%v", kind, sf, truth.Count, truth.Sum, truth.Distinct))
	}

	// ---------------- layer 2: the whole marshalling step of goInsert with a binding budget
	cfg := DefaultConfigAggregator()
	cfg.RemoteInitial.InsertBudget = 1
	cfg.RemoteInitial.MinInsertBudget = 1 // budget = InsertBudgetFixed + 1 per contributor
	a := &Aggregator{config: cfg, configR: cfg.RemoteInitial, shardKey: 1, replicaKey: 1, aggregatorHostTag: data_model.TagUnion{I: 1001}, metricStorage: storage}
	a.tagsMapper3 = NewTagsMapper3(a, nil, storage, nil)
	rounds := r.N(2, 12)
	for round := 0; round < rounds; round++ {
		nItems := []int{4000, 7000, 12000}[rnd.IntN(3)]
		type itemTruth struct {
			item *data_model.MultiItem
			tail *c05Truth
			tops map[data_model.TagUnion]*c05Truth
		}
		truths := map[[2]int32]*itemTruth{} // (metric, tag1)
		var buckets []*aggregatorBucket
		nb := 1 + rnd.IntN(3) // one recent + historic buckets
		for bi := 0; bi < nb; bi++ {
			b := newAggregatorBucket(1700000000 + uint32(round*10+bi))
			b.contributorsMetric[0][0].AddCounterHost(rng, 1, data_model.TagUnion{I: 7})
			buckets = append(buckets, b)
		}
		var scratch []byte
		for i := 0; i < nItems; i++ {
			b := buckets[rnd.IntN(len(buckets))]
			kind := rnd.IntN(c05NumKinds)
			var k data_model.Key
			k.Timestamp = b.time
			// 8 metrics of very different volume: small ones fit their share (factor 1), big ones are sampled
			k.Metric = int32(3000 + kind*2)
			if rnd.IntN(12) == 0 {
				k.Metric++
			}
			k.Tags[1] = int32(i + 1)
			var hash uint64
			scratch, hash = k.XXHash(scratch)
			mi, _ := b.shards[hash%data_model.AggregationShardsPerSecond].GetOrCreateMultiItem(&k, nil, scratch)
			it := &itemTruth{item: mi, tops: map[data_model.TagUnion]*c05Truth{}}
			host := int32(5000 + rnd.IntN(50))
			if rnd.IntN(5) == 0 { // string tops (fewer than StringTopCountInsert), sometimes with a tail
				for s, ns := 0, 1+rnd.IntN(4); s < ns; s++ {
					tag := data_model.TagUnion{S: fmt.Sprintf("t%d", s)}
					if s == 2 {
						tag = data_model.TagUnion{I: int32(100 + s)}
					}
					tt := c05Fill(rnd, rng, mi.MapStringTop(rng, data_model.AggregatorStringTopCapacity, tag, 1), kind, host)
					it.tops[tag] = &tt
				}
				if rnd.IntN(2) == 0 {
					tt := c05Fill(rnd, rng, &mi.Tail, kind, host)
					it.tail = &tt
				}
			} else {
				tt := c05Fill(rnd, rng, &mi.Tail, kind, host)
				if rnd.IntN(50) == 0 { // a whale
					mi.Tail.AddCounterHost(rng, 1e6, data_model.TagUnion{I: host})
					tt.Count += 1e6
				}
				it.tail = &tt
			}
			truths[[2]int32{k.Metric, k.Tags[1]}] = it
		}
		body, _, stats, _ := a.rowDataMarshalAppendPositions(buckets, data_model.SamplerBuffers{}, rng, nil)
		rows, err := aggengParseBody(aggengInsert{Columns: cols, Body: body})
		if err != nil {
			r.Violation("C05/insert-scaling/row-bytes", "the body of rowDataMarshalAppendPositions is not consumed row by row to its last byte: "+err.Error(), map[string]any{"round": round, "items": nItems, "body_bytes": len(body)})
			continue
		}
		seen := map[[2]int32]int{}
		sfSeen := map[float64]int{}
		for ri := range rows {
			row := &rows[ri]
			if row.Metric <= 0 {
				r.Count("layer2.rows_builtin", 1)
				continue
			}
			id := [2]int32{row.Metric, row.Tags[1]}
			it := truths[id]
			if it == nil {
				r.Violation("C05/insert-scaling/unexpected-row", "row whose key was never put into a bucket", map[string]any{"metric": row.Metric, "tag1": row.Tags[1]})
				continue
			}
			seen[id]++
			top := data_model.TagUnion{I: row.Tags[format.StringTopTagIndexV3], S: row.STags[format.StringTopTagIndexV3]}
			tt := it.tail
			if !top.Empty() {
				tt = it.tops[top]
			}
			if tt == nil {
				r.Violation("C05/insert-scaling/unexpected-row", "row for a string-top value / tail the item does not have", map[string]any{"metric": row.Metric, "tag1": row.Tags[1], "top": fmt.Sprintf("%+v", top)})
				continue
			}
			sf := it.item.SF // what the sampler told the encoder
			sfSeen[sf]++
			c05Compare(r, "rowDataMarshalAppendPositions", row, tt, sf, map[string]any{"round": round, "items": nItems, "budget": stats.samplingBudget})
			r.Count("layer2.rows", 1)
			if sf > 1 {
				r.Count("layer2.rows_factor_gt_1", 1)
			}
			r.MaxCounter("layer2.max_factor_x1000", int64(math.Min(sf, 1e12)*1000))
			r.Case(sf > 1, fmt.Sprintf("2|%d|%v|%v|%v|%v", tt.Kind, sf, tt.Count, tt.Sum, tt.Distinct))
		}
		// an item is inserted whole or not at all
		for id, n := range seen {
			it := truths[id]
			want := len(it.tops)
			if it.tail != nil {
				want++
			}
			if n != want {
				r.Violation("C05/insert-scaling/partial-item", fmt.Sprintf("item with %d rows (tail + string tops) has %d rows in the body", want, n), map[string]any{"metric": id[0], "tag1": id[1], "sample_factor": it.item.SF})
			}
		}
		r.Count("layer2.items", int64(nItems))
		r.Count("layer2.items_kept", int64(len(seen)))
		if len(sfSeen) < 2 {
			r.Inconclusive(fmt.Sprintf("agg_insert round %d: the insert budget did not bind (factors seen: %v)", round, sfSeen))
		}
		if round == 0 {
			var fs []float64
			for f := range sfSeen {
				fs = append(fs, f)
			}
			sort.Float64s(fs)
			if len(fs) > 8 {
				fs = fs[:8]
			}
			r.Sample(map[string]any{"layer": "rowDataMarshalAppendPositions", "items": nItems, "rows": len(rows), "items_kept": len(seen), "budget": stats.samplingBudget, "factors_seen": fs})
		}
	}
}
