//go:build verif

package aggregator

// C10, aggregator clause: "the aggregator files every accepted second into a bucket it will
// itself insert at most two seconds later, or into its historic queue".
//
// Engine agg-inproc (zz_verif_aggengine_test.go).  Every request comes from its own host name,
// so the bucket that received the contributor can be read in-package (contributors3 under
// b.mu) without guessing; the fake ClickHouse scans the buckets once more before it answers
// an INSERT, i.e. before the aggregator clears the contributors of the inserted buckets.

import (
	"fmt"
	"math/rand/v2"
	"os"
	"sort"
	"strings"
	"sync"
	"testing"
	"time"

	"github.com/VKCOM/statshouse/internal/data_model"
	"github.com/VKCOM/statshouse/internal/data_model/gen2/tlstatshouse"
	"github.com/VKCOM/statshouse/internal/format"
	"github.com/VKCOM/statshouse/internal/zzverif/verifkit"
)

const c10Metric = 4242

type c10Placement struct {
	Kind       string // "recent" | "historic"
	BucketTime uint32
}

type c10Observer struct {
	e       *aggengEngine
	r       *verifkit.Run
	mu      sync.Mutex
	tracked map[*aggregatorBucket]string // bucket -> kind
	placed  map[string]c10Placement      // host name -> first bucket the contributor was seen in
	scans   int64
	stop    chan struct{}
	done    chan struct{}
}

func c10NewObserver(r *verifkit.Run, e *aggengEngine) *c10Observer {
	o := &c10Observer{e: e, r: r, tracked: map[*aggregatorBucket]string{}, placed: map[string]c10Placement{}, stop: make(chan struct{}), done: make(chan struct{})}
	e.CH.mu.Lock()
	e.CH.onInsert = func(aggengInsert) { o.scan() }
	e.CH.mu.Unlock()
	go func() {
		defer close(o.done)
		for {
			select {
			case <-o.stop:
				return
			default:
			}
			o.scan()
			time.Sleep(500 * time.Microsecond)
		}
	}()
	return o
}

func (o *c10Observer) Stop() {
	close(o.stop)
	<-o.done
	o.scan()
}

func (o *c10Observer) scan() {
	o.mu.Lock()
	defer o.mu.Unlock()
	o.scans++
	a := o.e.Agg
	inLists := map[*aggregatorBucket]bool{}
	a.mu.Lock()
	for _, b := range a.recentBuckets {
		o.tracked[b] = "recent"
		inLists[b] = true
	}
	for _, b := range a.historicBuckets {
		if _, ok := o.tracked[b]; !ok {
			o.tracked[b] = "historic"
		}
		inLists[b] = true
	}
	a.mu.Unlock()
	own := uint32(o.e.Replica - 1)
	for b, kind := range o.tracked {
		b.mu.Lock()
		n := len(b.contributors3)
		for _, c := range b.contributors3 {
			h := c.host.S
			if !strings.HasPrefix(h, "c10-") {
				continue
			}
			if _, seen := o.placed[h]; !seen {
				o.placed[h] = c10Placement{Kind: kind, BucketTime: b.time}
			} else if p := o.placed[h]; p.BucketTime != b.time || p.Kind != kind {
				o.r.Violation("C10/agg/contributor-in-two-buckets", fmt.Sprintf("contributor %s seen in %s bucket %d and in %s bucket %d", h, p.Kind, p.BucketTime, kind, b.time), map[string]any{"replica": o.e.Replica})
			}
		}
		bt := b.time
		b.mu.Unlock()
		if kind == "recent" && n > 0 && bt%3 != own {
			o.r.Violation("C10/agg/foreign-second-has-contributors", fmt.Sprintf("recent bucket of second %d (mod 3 = %d) of replica %d holds %d contributors: this replica never inserts that second", bt, bt%3, o.e.Replica, n),
				map[string]any{"replica": o.e.Replica, "bucket_time": bt})
		}
		if n == 0 && !inLists[b] {
			delete(o.tracked, b)
		}
	}
}

func (o *c10Observer) Placement(host string) (c10Placement, bool) {
	o.mu.Lock()
	defer o.mu.Unlock()
	p, ok := o.placed[host]
	return p, ok
}

type c10Req struct {
	Idx                        int
	Host                       string
	Delta                      int64 // args.Time - now at send
	Time                       uint32
	Historic                   bool
	Spare                      bool
	OldestBefore, NewestBefore uint32
	OldestAfter, NewestAfter   uint32
	Res                        aggengSendResult
	Answered                   bool
}

// Time - now: the whole range -10..+10, but two thirds of the requests near the recent window
func c10Delta(rnd *rand.Rand) int64 {
	if rnd.IntN(3) == 0 {
		return int64(rnd.IntN(21)) - 10
	}
	return int64(rnd.IntN(11)) - 6
}

func c10Rounded(t uint32, replica int) uint32 {
	for t%3 != uint32(replica-1) {
		t++
	}
	return t
}

func TestVerifC10(t *testing.T) {
	if !aggengInChild(t, "C10", "aggregator", "TestVerifC10") {
		return
	}
	r := verifkit.Start(t, "C10", "aggregator")
	defer r.Finish()
	r.SetRule("three in-process aggregators (replica 1, 2, 3; short window 5, 3, 4) each receive requests with Time = now-10..now+10, a third of them historic, a quarter flagged spare, every request from its own host with its own key. A case = one request; non-trivial = the contributor was seen in a bucket; distinct = (replica, Time-now, historic, spare, outcome, bucket second - Time).")
	r.Assume("aggregators run in local mode (three addresses, --local-replica): the shard*replica number of the request header is not checked")
	nPer := r.N(70, 1700)
	gap := time.Duration(r.N(100, 12)) * time.Millisecond
	type inst struct {
		e    *aggengEngine
		o    *c10Observer
		reqs []*c10Req
	}
	insts := make([]*inst, 3)
	var wg sync.WaitGroup
	var emu sync.Mutex
	var startErr error
	for i := range insts {
		insts[i] = &inst{}
		wg.Add(1)
		go func(i int) {
			defer wg.Done()
			dir := r.MkTmp(fmt.Sprintf("c10-agg%d-", i))
			sw := []int{5, 3, 4}[i]
			e, err := aggengStart(dir, aggengConfig{Name: fmt.Sprintf("c10agg%d", i), Replica: i + 1, Tweak: func(c *ConfigAggregator) { c.RemoteInitial.ShortWindow = sw }})
			if err != nil {
				emu.Lock()
				startErr = err
				emu.Unlock()
				return
			}
			insts[i].e = e
			insts[i].o = c10NewObserver(r, e)
		}(i)
	}
	wg.Wait()
	defer func() {
		for _, in := range insts {
			if in.e != nil {
				in.e.Stop()
				_ = os.RemoveAll(in.e.Dir)
			}
		}
	}()
	if startErr != nil {
		r.Inconclusive("aggregator engine did not start: " + startErr.Error())
		return
	}
	for i, in := range insts {
		wg.Add(1)
		go func(i int, in *inst) {
			defer wg.Done()
			rnd := r.Rand(fmt.Sprintf("req/%d", i))
			clients := make([]tlstatshouse.Client, 6)
			for c := range clients {
				clients[c] = in.e.NewClient()
			}
			var rwg sync.WaitGroup
			for j := 0; j < nPer; j++ {
				q := &c10Req{Idx: j, Host: fmt.Sprintf("c10-%d-%d", i, j), Delta: c10Delta(rnd), Historic: rnd.IntN(3) == 0, Spare: rnd.IntN(4) == 0}
				in.reqs = append(in.reqs, q)
				var k data_model.Key
				k.Metric = c10Metric
				k.Tags[1] = int32(j + 1)
				k.Tags[2] = int32(i + 1)
				item := k.TLMultiItemFromKey(0)
				var mv data_model.MultiValue
				mv.AddCounter(nil, 1)
				_ = mv.MultiValueToTL(&format.MetricMetaValue{}, &item.Tail, 1, &item.FieldsMask, nil)
				var sb tlstatshouse.SourceBucket3
				sb.Metrics = append(sb.Metrics, item)
				q.OldestBefore, q.NewestBefore = in.e.Window()
				q.Time = uint32(time.Now().Unix() + q.Delta)
				args := aggengBuildArgs(aggengSend{Time: q.Time, Host: q.Host, Historic: q.Historic, Spare: q.Spare, Bucket: sb}, in.e.Replica)
				rwg.Add(1)
				go func(q *c10Req, cl tlstatshouse.Client) {
					defer rwg.Done()
					q.Res = in.e.SendArgs(cl, args, 90*time.Second)
					q.OldestAfter, q.NewestAfter = in.e.Window()
					q.Answered = true
				}(q, clients[j%len(clients)])
				time.Sleep(gap)
			}
			rwg.Wait()
			in.o.Stop()
		}(i, in)
	}
	wg.Wait()

	for i, in := range insts {
		c10Judge(r, i, in.e, in.o, in.reqs)
	}
}

func c10Judge(r *verifkit.Run, idx int, e *aggengEngine, o *c10Observer, reqs []*c10Req) {
	// rows of the request keys in the inserted bodies
	rows := map[int32][]aggengRow{}
	for _, ins := range e.CH.Inserts() {
		if ins.Table != "statshouse_v3_incoming" {
			continue
		}
		rs, err := aggengParseBody(ins)
		if err != nil {
			r.Inconclusive(fmt.Sprintf("instance %d: INSERT body #%d not readable: %v", idx, ins.Seq, err))
			continue
		}
		r.Count("insert.bodies", 1)
		for _, row := range rs {
			if row.Metric == c10Metric && row.Tags[2] == int32(idx+1) {
				rows[row.Tags[1]] = append(rows[row.Tags[1]], row)
			}
		}
	}
	r.Count("observer.scans", o.scans)
	for _, q := range reqs {
		wit := func() map[string]any {
			return map[string]any{"replica": e.Replica, "host": q.Host, "time": q.Time, "time_minus_now": q.Delta, "historic": q.Historic, "spare": q.Spare,
				"window_before": []uint32{q.OldestBefore, q.NewestBefore}, "window_after": []uint32{q.OldestAfter, q.NewestAfter},
				"rpc_error": fmt.Sprint(q.Res.Err), "discard": q.Res.Discard, "warning": q.Res.Warning}
		}
		myRows := rows[int32(q.Idx+1)]
		p, placed := o.Placement(q.Host)
		want := c10Rounded(q.Time, e.Replica)
		outcome := ""
		clean := q.Answered && q.Res.Err == nil && q.Res.Discard && q.Res.Warning == ""
		switch {
		case placed && p.Kind == "recent":
			outcome = "recent"
			r.Count("placed.recent", 1)
			if p.BucketTime%3 != uint32(e.Replica-1) {
				r.Violation("C10/agg/recent-bucket-not-own-second", fmt.Sprintf("second %d filed into recent bucket %d, which is congruent %d mod 3: replica %d only inserts seconds congruent %d", q.Time, p.BucketTime, p.BucketTime%3, e.Replica, e.Replica-1), wit())
			}
			if p.BucketTime < q.Time || p.BucketTime-q.Time > 2 {
				r.Violation("C10/agg/recent-bucket-distance", fmt.Sprintf("second %d filed into recent bucket %d: not 0..2 seconds later", q.Time, p.BucketTime), wit())
			} else if p.BucketTime != want {
				r.Violation("C10/agg/recent-bucket-not-nearest", fmt.Sprintf("second %d filed into recent bucket %d, the nearest own second is %d", q.Time, p.BucketTime, want), wit())
			}
		case placed && p.Kind == "historic":
			outcome = "historic"
			r.Count("placed.historic", 1)
			if !q.Historic {
				r.Violation("C10/agg/recent-request-in-historic-queue", fmt.Sprintf("recent-conveyor request for second %d was filed into the historic queue (bucket %d)", q.Time, p.BucketTime), wit())
			}
			if p.BucketTime != q.Time {
				r.Count("historic.bucket_time_differs_from_request", 1)
			}
		case !q.Answered || q.Res.Err != nil:
			outcome = "no-answer"
			r.NotJudged("request_without_answer", 1)
		case clean:
			outcome = "accepted-unobserved"
			r.NotJudged("accepted_but_bucket_not_observed", 1)
		default:
			outcome = "rejected"
			r.Count("rejected", 1)
			// The window only moves forward: a second inside the window both before the request was
			// sent and after it was answered was inside it whenever the request was handled.
			inside := want >= q.OldestAfter && want <= q.NewestBefore
			switch {
			case !q.Historic && inside:
				r.Violation("C10/agg/rejected-inside-recent-window", fmt.Sprintf("request for second %d (own second %d) rejected with %q although the recent window covered it before ([%d,%d]) and after ([%d,%d])",
					q.Time, want, q.Res.Warning, q.OldestBefore, q.NewestBefore, q.OldestAfter, q.NewestAfter), wit())
			case q.Historic && want <= q.NewestBefore:
				// not in the future of the window (and far inside the historic window): recent bucket or historic queue
				r.Violation("C10/agg/historic-rejected", fmt.Sprintf("historic request for second %d (own second %d, not beyond the newest second %d of the recent window) rejected with %q", q.Time, want, q.NewestBefore, q.Res.Warning), wit())
			}
			if len(myRows) != 0 {
				r.Violation("C10/agg/rejected-but-inserted", fmt.Sprintf("request rejected with %q but its row was inserted", q.Res.Warning), wit())
			}
		}
		if placed {
			// accepted: must be answered "discard" after its row reached ClickHouse exactly once, at its own second
			switch {
			case !q.Answered || q.Res.Err != nil:
				r.NotJudged("placed_request_without_answer", 1)
			case !clean:
				r.Violation("C10/agg/accepted-not-inserted", fmt.Sprintf("contributor filed into %s bucket %d but answered discard=%v warning=%q", p.Kind, p.BucketTime, q.Res.Discard, q.Res.Warning), wit())
			case len(myRows) != 1:
				r.Violation("C10/agg/accepted-row-count", fmt.Sprintf("contributor filed into %s bucket %d and answered discard, but %d rows with its key were inserted", p.Kind, p.BucketTime, len(myRows)), wit())
			case myRows[0].Time != q.Time || myRows[0].Count != 1:
				r.Violation("C10/agg/accepted-row-differs", fmt.Sprintf("inserted row has time %d count %v, sent second %d count 1", myRows[0].Time, myRows[0].Count, q.Time), wit())
			default:
				r.Count("accepted.row_inserted_once", 1)
			}
		} else if outcome == "accepted-unobserved" && len(myRows) != 1 {
			r.Violation("C10/agg/accepted-row-count", fmt.Sprintf("request answered discard without warning, but %d rows with its key were inserted", len(myRows)), wit())
		}
		dist := int64(p.BucketTime) - int64(q.Time)
		if !placed {
			dist = -99
		}
		r.Shape(fmt.Sprintf("%s|hist=%v|dist=%d", outcome, q.Historic, dist))
		r.Count("outcome."+outcome, 1)
		if outcome != "no-answer" {
			r.Case(placed, fmt.Sprintf("%d|%d|%v|%v|%s|%d", e.Replica, q.Delta, q.Historic, q.Spare, outcome, dist))
		}
		if r.WantSample() && placed {
			r.Sample(map[string]any{"request": wit(), "placed_in": p.Kind, "bucket_time": p.BucketTime})
		}
	}
	_ = sort.Ints
}
