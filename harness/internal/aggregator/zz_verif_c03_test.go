//go:build verif

package aggregator

import (
	"bytes"
	"fmt"
	"math"
	"math/rand/v2"
	"os"
	"sort"
	"strconv"
	"strings"
	"sync"
	"testing"
	"time"

	"github.com/ClickHouse/ch-go/proto"

	"github.com/VKCOM/statshouse/internal/chutil"
	"github.com/VKCOM/statshouse/internal/data_model"
	"github.com/VKCOM/statshouse/internal/data_model/gen2/tlstatshouse"
	"github.com/VKCOM/statshouse/internal/format"
	"github.com/VKCOM/statshouse/internal/zzverif/verifkit"
)

// ClickHouse intHash32 (Common/HashTable/Hash.h).  Used only to recognise inputs whose 32-bit
// hashes collide (then "exact" is not defined by the statement and the case is not judged).
func c03IntHash32(key uint64) uint32 {
	key = (^key) + (key << 18)
	key ^= (key >> 31) | (key << 33)
	key *= 21
	key ^= (key >> 11) | (key << 53)
	key += key << 6
	key ^= (key >> 22) | (key << 42)
	return uint32(key)
}

const c03ExactLimit = 65536 // the sketch starts discarding values above this many distinct items

type c03Sent struct {
	Send   aggengSend
	Items  []c03Item
	Result aggengSendResult
}

type c03Instance struct {
	Idx       int
	Replica   int
	Engine    *aggengEngine
	Gen       *c03Gen
	Sent      []*c03Sent
	mu        sync.Mutex
	lastBuild time.Duration
}

func c03Mappings() map[string]int32 {
	m := map[string]int32{}
	for i := 0; i < 6; i++ {
		m["mapped-tag-"+strconv.Itoa(i)] = int32(90001 + i)
	}
	for i := 0; i < 3; i++ {
		m["mapped-host-"+strconv.Itoa(i)] = int32(80001 + i)
	}
	return m
}

func c03SenderHost(name string, mp c03Mapper) c03Host {
	return c03NormHost(c03Host{S: format.ForceValidStringValue(name)}, mp)
}

func c03HostNames(n int) []string {
	var hs []string
	for i := 0; i < n; i++ {
		switch {
		case i%7 == 3:
			hs = append(hs, "mapped-host-"+strconv.Itoa(i%3))
		case i == 5:
			hs = append(hs, "  host with  spaces\t") // normalised by the aggregator
		case i == 9:
			hs = append(hs, "") // no host name at all
		default:
			hs = append(hs, "host"+strconv.Itoa(i))
		}
	}
	return hs
}

func TestVerifC03(t *testing.T) {
	if !aggengInChild(t, "C03", "agg", "TestVerifC03") {
		return
	}
	r := verifkit.Start(t, "C03", "agg")
	defer r.Finish()
	c03Run(t, r, r.N(1, 4), r.N(200, 500), r.N(20, 24))
}

// TestVerifC03Race (unit "agg-race", built with -race): the same workload and oracle at a smaller
// size; the race detector is the second monitor of the per-key aggregation shards.
func TestVerifC03Race(t *testing.T) {
	if !aggengInChild(t, "C03", "agg-race", "TestVerifC03Race") {
		return
	}
	r := verifkit.Start(t, "C03", "agg-race")
	defer r.Finish()
	c03Run(t, r, 1, r.N(60, 100), 12)
}

func c03Run(t *testing.T, r *verifkit.Run, rounds, nKeys, nHosts int) {
	r.SetRule("per aggregator instance and round: H simulated hosts each send one SourceBucket3 per second for 5 recent seconds (+ historic seconds) with a random subset of a key pool; every key has a value kind (counter, value, unique, percentile, string-top of counters/values, mixed, big unique set, big digest), int/string/mapped tags at positions 0..46, optional explicit timestamps and host fields. A case = one expected row key (time, metric, tags, stags) with all its string-top rows; non-trivial = merged from >= 2 contributions or carrying sketch/digest/top data; distinct = (key spec, kind, number of contributions, fold shape), time excluded.")
	r.Assume("insert budget does not bind: InsertBudget=2^24 per contributor, MinInsertBudget=2^40; no __agg_sampling_factor row may appear (checked)")
	r.Assume("metadata service unreachable; metric ids 1001..1017 are unknown to the aggregator (default meta, no skip flags)")
	r.Assume("rows of built-in metrics (metric id < 0) are parsed and decoded but excluded from the exactly-once / merge oracle")

	nInst := 3
	if c03IntHash32(c03ZeroHashValue) != 0 {
		r.Inconclusive("harness constant c03ZeroHashValue does not hash to 0")
	}
	if v := os.Getenv("VERIF_C03_KEYS"); v != "" {
		nKeys, _ = strconv.Atoi(v)
	}
	mappings := c03Mappings()

	insts := make([]*c03Instance, nInst)
	var wg sync.WaitGroup
	var startErr error
	var emu sync.Mutex
	for i := 0; i < nInst; i++ {
		inst := &c03Instance{Idx: i, Replica: i + 1}
		insts[i] = inst
		wg.Add(1)
		go func() {
			defer wg.Done()
			dir := r.MkTmp(fmt.Sprintf("c03-agg%d-", inst.Idx))
			e, err := aggengStart(dir, aggengConfig{Name: fmt.Sprintf("c03agg%d", inst.Idx), Replica: inst.Replica, Mappings: mappings})
			if err != nil {
				emu.Lock()
				startErr = err
				emu.Unlock()
				return
			}
			inst.Engine = e
			inst.Gen = c03NewGen(r.Rand(fmt.Sprintf("gen/%d", inst.Idx)), mappings, nKeys, r.Thorough())
		}()
	}
	wg.Wait()
	defer func() {
		for _, inst := range insts {
			if inst.Engine != nil {
				inst.Engine.Stop()
				_ = os.RemoveAll(inst.Engine.Dir)
			}
		}
	}()
	if startErr != nil {
		r.Inconclusive("aggregator engine did not start: " + startErr.Error())
		return
	}

	for _, inst := range insts {
		wg.Add(1)
		go func(inst *c03Instance) {
			defer wg.Done()
			defer func() {
				if p := recover(); p != nil {
					r.Violation("C03/harness-panic", fmt.Sprintf("panic in instance %d: %v", inst.Idx, p), nil)
				}
			}()
			for round := 0; round < rounds; round++ {
				c03Round(r, inst, round, nHosts)
			}
		}(inst)
	}
	wg.Wait()

	for _, inst := range insts {
		c03Judge(r, inst)
	}
}

// one wave of traffic; returns when every RPC was answered
func c03Round(r *verifkit.Run, inst *c03Instance, round int, nHosts int) {
	g := inst.Gen
	rnd := g.rnd
	tGen := time.Now()
	hosts := c03HostNames(nHosts)
	recentOffs := []int64{-3, -2, -1, 0, 1}
	type plan struct {
		host     string
		off      int64 // relative to "now" at send time (recent) / absolute shift into the past (historic)
		historic bool
		spare    bool
		items    []c03Item
		cl       tlstatshouse.Client
	}
	var plans []*plan
	clients := make([]tlstatshouse.Client, len(hosts))
	for h := range hosts {
		clients[h] = inst.Engine.NewClient()
	}
	for h, hn := range hosts {
		sender := c03SenderHost(hn, g.mapper)
		mk := func(off int64, historic bool) {
			p := &plan{host: hn, off: off, historic: historic, spare: rnd.IntN(6) == 0, cl: clients[h]}
			for ki := range g.keys {
				ks := &g.keys[ki]
				if historic && off > -100 && !ks.UseT {
					continue // the historic request for a recent second only carries the keys that also use explicit timestamps
				}
				prob := 0.55
				if ks.Kind == c03KindBigUnique || ks.Kind == c03KindBigDigest {
					prob = 0.25
				}
				if rnd.Float64() < prob {
					p.items = append(p.items, g.item(ki, sender))
				}
			}
			// a second item for an already present key inside the same bucket (two shards of one agent
			// never do that, but two buckets of one host in one aggregator second do)
			for x := 0; x < 3 && len(p.items) > 0; x++ {
				p.items = append(p.items, g.item(p.items[rnd.IntN(len(p.items))].KeyIdx, sender))
			}
			rnd.Shuffle(len(p.items), func(i, j int) { p.items[i], p.items[j] = p.items[j], p.items[i] })
			plans = append(plans, p)
		}
		for _, off := range recentOffs {
			mk(off, h%8 == 6 && off == -2) // a historic-conveyor request for a second that is still recent
		}
		if h%3 == 0 { // historic seconds: shared by several hosts so that they merge too
			mk(-int64(600+round*40+h%2), true)
			mk(-int64(600+round*40+7), true)
		}
	}
	// Stamp every bucket for a second slightly in the future, serialise and compress everything,
	// wait for that second, then fire everything at once: the requests reach the aggregator
	// while their seconds are inside its recent window even on a loaded machine.
	genDur := time.Since(tGen)
	if os.Getenv("VERIF_C03_GENONLY") != "" { // profiling aid: generation only
		r.T.Logf("C03 instance %d round %d: plans=%d gen=%.1fs (generation only)", inst.Idx, round, len(plans), genDur.Seconds())
		return
	}
	lead := int64(3) + min(int64(5*genDur/(2*time.Second)), 40) // serialising costs at most about as much as generating
	if inst.lastBuild > 0 {
		lead = 2 + int64(3*inst.lastBuild/(2*time.Second))
	}
	sents := make([]*c03Sent, len(plans))
	argss := make([]tlstatshouse.SendSourceBucket3, len(plans))
	for i, p := range plans {
		s := &c03Sent{Items: p.items}
		s.Send = aggengSend{Host: p.host, Historic: p.historic, Spare: p.spare}
		if rnd.IntN(5) == 0 {
			s.Send.Owner = "owner-" + strconv.Itoa(rnd.IntN(3))
		}
		sents[i] = s
	}
	var wg sync.WaitGroup
	var now int64
	late := false
	for attempt := 0; attempt < 4; attempt++ {
		tBuild := time.Now()
		now = tBuild.Unix() + lead
		sem := make(chan struct{}, 8)
		for i, p := range plans {
			wg.Add(1)
			go func(i int, p *plan) {
				defer wg.Done()
				sem <- struct{}{}
				defer func() { <-sem }()
				s := sents[i]
				s.Send.Time = uint32(now + p.off)
				var sb tlstatshouse.SourceBucket3
				for k := range p.items {
					it := &p.items[k]
					if it.HasT {
						it.TL.SetT(uint32(int64(s.Send.Time) + it.TRel))
					}
					sb.Metrics = append(sb.Metrics, it.TL)
				}
				s.Send.Bucket = sb
				argss[i] = aggengBuildArgs(s.Send, inst.Replica)
				s.Send.Bucket = tlstatshouse.SourceBucket3{}
			}(i, p)
		}
		wg.Wait()
		inst.lastBuild = time.Since(tBuild)
		late = time.Now().Unix() > now
		if !late {
			break
		}
		r.Count("rounds.rebuilt_because_late", 1)
		lead = 3 + int64(2*inst.lastBuild/time.Second)
	}
	for _, p := range plans { // the requests are serialised: keep only the keys of the items
		for k := range p.items {
			tl := &p.items[k].TL
			*tl = tlstatshouse.MultiItem{Metric: tl.Metric, Keys: tl.Keys, Skeys: tl.Skeys, FieldsMask: tl.FieldsMask & (1 << 12)}
		}
	}
	if d := time.Until(time.Unix(now, 50e6)); d > 0 {
		time.Sleep(d)
	}
	tSend := time.Now()
	for i := range plans {
		wg.Add(1)
		go func(i int) {
			defer wg.Done()
			sents[i].Result = inst.Engine.SendArgs(plans[i].cl, argss[i], 150*time.Second)
			argss[i] = tlstatshouse.SendSourceBucket3{}
		}(i)
	}
	wg.Wait()
	r.T.Logf("C03 instance %d round %d: plans=%d gen=%.1fs build=%.1fs lead=%ds late=%v answered in %.1fs", inst.Idx, round, len(plans), genDur.Seconds(), inst.lastBuild.Seconds(), lead, late, time.Since(tSend).Seconds())
	inst.mu.Lock()
	inst.Sent = append(inst.Sent, sents...)
	inst.mu.Unlock()
}

type c03ObsRow struct {
	Body int
	Row  *aggengRow
	Dec  c03Decoded
}

type c03Decoded struct {
	UniqItems                    int
	UniqSize                     uint64
	UniqSkip                     bool
	Cent                         [][2]float64
	MinHost                      c03Host
	MaxHost                      c03Host
	CntHost                      c03Host
	MinEmpty, MaxEmpty, CntEmpty bool
}

func c03DecHost(a data_model.ArgMinMaxStringFloat32) c03Host {
	return c03Host{I: a.AsInt32, S: a.AsString}
}

// the argument as the independent reader sees it: [flag][payload][0]
func c03RawHost(h aggengHostArg) (c03Host, bool, string) {
	if h.Null {
		return c03Host{}, true, ""
	}
	a := h.ArgRaw
	if len(a) < 2 {
		return c03Host{}, false, fmt.Sprintf("argument of %d bytes", len(a))
	}
	if a[len(a)-1] != 0 {
		return c03Host{}, false, "argument is not zero-terminated"
	}
	switch a[0] {
	case 1:
		return c03Host{S: string(a[1 : len(a)-1])}, false, ""
	case 0:
		if len(a) != 6 {
			return c03Host{}, false, fmt.Sprintf("int argument of %d bytes", len(a))
		}
		return c03Host{I: int32(uint32(a[1]) | uint32(a[2])<<8 | uint32(a[3])<<16 | uint32(a[4])<<24)}, false, ""
	}
	return c03Host{}, false, fmt.Sprintf("argument kind byte %d", a[0])
}

func c03EOF(rd *proto.Reader) bool {
	_, err := rd.ReadByte()
	return err != nil
}

// c03DecodeRow feeds the sketch, digest and host byte ranges of one row to the API's column
// readers (one-row columns) and demands that each consumes exactly its bytes.
func c03DecodeRow(r *verifkit.Run, row *aggengRow, where string) (c03Decoded, bool) {
	var d c03Decoded
	ok := true
	bad := func(key, what string) {
		ok = false
		r.Violation("C03/decode/"+key, what, map[string]any{"where": where, "metric": row.Metric, "time": row.Time,
			"uniq_hex": fmt.Sprintf("%x", c03Clip(row.UniqRaw)), "perc_hex": fmt.Sprintf("%x", c03Clip(row.PercRaw)),
			"min_host_hex": fmt.Sprintf("%x", row.MinHost.Raw), "max_host_hex": fmt.Sprintf("%x", row.MaxHost.Raw), "max_count_host_hex": fmt.Sprintf("%x", row.MaxCountHost.Raw)})
	}
	{
		var cu chutil.ColUnique
		rd := proto.NewReader(bytes.NewReader(row.UniqRaw))
		if err := cu.DecodeColumn(rd, 1); err != nil {
			bad("uniq-error", "chutil.ColUnique cannot decode the written uniq_state: "+err.Error())
		} else if !c03EOF(rd) {
			bad("uniq-short-read", "chutil.ColUnique left bytes of the written uniq_state unread")
		} else {
			d.UniqItems = cu[0].ItemsCount()
			d.UniqSize = cu[0].Size(false)
			d.UniqSkip = row.UniqSkip != 0
			if d.UniqItems != len(row.UniqItems) {
				bad("uniq-items", fmt.Sprintf("chutil.ColUnique holds %d items, %d were written", d.UniqItems, len(row.UniqItems)))
			}
		}
	}
	{
		var ct chutil.ColTDigest
		rd := proto.NewReader(bytes.NewReader(row.PercRaw))
		if err := ct.DecodeColumn(rd, 1); err != nil {
			bad("digest-error", "chutil.ColTDigest cannot decode the written percentiles: "+err.Error())
		} else if !c03EOF(rd) {
			bad("digest-short-read", "chutil.ColTDigest left bytes of the written percentiles unread")
		} else {
			for _, c := range ct[0].Centroids() {
				d.Cent = append(d.Cent, [2]float64{c.Mean, c.Weight})
			}
		}
	}
	host := func(name string, raw aggengHostArg, isMin bool) (c03Host, bool) {
		var a data_model.ArgMinMaxStringFloat32
		rd := proto.NewReader(bytes.NewReader(raw.Raw))
		var err error
		if isMin {
			var c chutil.ColArgMinStringFloat32
			if err = c.DecodeColumn(rd, 1); err == nil {
				a = c[0].ArgMinMaxStringFloat32
			}
		} else {
			var c chutil.ColArgMaxStringFloat32
			if err = c.DecodeColumn(rd, 1); err == nil {
				a = c[0].ArgMinMaxStringFloat32
			}
		}
		if err != nil {
			bad(name+"-error", "the API column reader cannot decode the written "+name+": "+err.Error())
			return c03Host{}, true
		}
		if !c03EOF(rd) {
			bad(name+"-short-read", "the API column reader left bytes of the written "+name+" unread")
			return c03Host{}, true
		}
		h := c03DecHost(a)
		want, null, perr := c03RawHost(raw)
		if perr != "" {
			bad(name+"-format", "written "+name+" is not a ClickHouse argMin/argMax(String,Float32) state of the statshouse layout: "+perr)
			return h, h.empty()
		}
		if null != h.empty() || (!null && h != want) {
			bad(name+"-differs", fmt.Sprintf("written %s argument %v (null=%v) decoded by the API reader as %v", name, want, null, h))
		}
		if !null && raw.HasVal && a.Val != raw.Val && !(math.IsNaN(float64(a.Val)) && math.IsNaN(float64(raw.Val))) {
			bad(name+"-value-differs", fmt.Sprintf("written %s value %v decoded as %v", name, raw.Val, a.Val))
		}
		return h, h.empty()
	}
	d.MinHost, d.MinEmpty = host("min_host", row.MinHost, true)
	d.MaxHost, d.MaxEmpty = host("max_host", row.MaxHost, false)
	d.CntHost, d.CntEmpty = host("max_count_host", row.MaxCountHost, false)
	return d, ok
}

func c03Clip(b []byte) []byte {
	if len(b) > 96 {
		return b[:96]
	}
	return b
}

func c03Near(got, want, sumAbs float64) bool {
	if got == want {
		return true
	}
	return math.Abs(got-want) <= 1e-12*sumAbs+1e-300
}

type c03RowWitness struct {
	Key   string  `json:"key"`
	Top   string  `json:"top"`
	Body  int     `json:"insert_seq"`
	Count float64 `json:"count"`
	Min   float64 `json:"min"`
	Max   float64 `json:"max"`
	Sum   float64 `json:"sum"`
	SumSq float64 `json:"sumsquare"`
	Uniq  int     `json:"uniq_items"`
	Cent  int     `json:"centroids"`
}

func c03Witness(key, top string, o *c03ObsRow) c03RowWitness {
	return c03RowWitness{Key: key, Top: top, Body: o.Body, Count: o.Row.Count, Min: o.Row.Min, Max: o.Row.Max, Sum: o.Row.Sum, SumSq: o.Row.SumSquare, Uniq: len(o.Row.UniqItems), Cent: len(o.Row.Centroids)}
}

func c03ExpWitness(a *c03Acc) map[string]any {
	return map[string]any{"contributions": a.N, "count": a.Count, "has_value": a.HasValue, "min": a.Min, "max": a.Max, "sum": a.Sum, "sumsquare": a.SumSq,
		"distinct": len(a.Uniq), "digest_weight": a.DigestW}
}

// compares one observed row with the accumulation that must be in it
func c03CompareRow(r *verifkit.Run, inst *c03Instance, base *c03Base, top string, o *c03ObsRow, exp *c03Acc, class string) {
	row := o.Row
	w := func() map[string]any {
		return map[string]any{"instance": inst.Idx, "replica": inst.Replica, "row": c03Witness(base.Key, top, o), "expected": c03ExpWitness(exp), "kind": base.Kind, "class": class}
	}
	if !c03Near(row.Count, exp.Count, exp.CountAbs) {
		r.Violation("C03/merge/count/"+class, fmt.Sprintf("row count %v, plain accumulation of the %d contributions gives %v", row.Count, exp.N, exp.Count), w())
	}
	if exp.HasValue {
		if row.Min != exp.Min {
			r.Violation("C03/merge/min/"+class, fmt.Sprintf("row min %v, contributions give %v", row.Min, exp.Min), w())
		}
		if row.Max != exp.Max {
			r.Violation("C03/merge/max/"+class, fmt.Sprintf("row max %v, contributions give %v", row.Max, exp.Max), w())
		}
		if !c03Near(row.Sum, exp.Sum, exp.SumAbs) {
			r.Violation("C03/merge/sum/"+class, fmt.Sprintf("row sum %v, contributions give %v", row.Sum, exp.Sum), w())
		}
		if !c03Near(row.SumSquare, exp.SumSq, exp.SumSqAbs) {
			r.Violation("C03/merge/sumsquare/"+class, fmt.Sprintf("row sumsquare %v, contributions give %v", row.SumSquare, exp.SumSq), w())
		}
	} else if row.Min != 0 || row.Max != 0 || row.Sum != 0 || row.SumSquare != 0 {
		r.Violation("C03/merge/value-on-counter/"+class, fmt.Sprintf("no contribution carried a value but the row has min/max/sum/sumsquare %v/%v/%v/%v", row.Min, row.Max, row.Sum, row.SumSquare), w())
	}
	// unique sketch
	if exp.HasUniq {
		distinct := len(exp.Uniq)
		hs := make(map[uint32]struct{}, distinct)
		for v := range exp.Uniq {
			hs[c03IntHash32(uint64(v))] = struct{}{}
		}
		switch {
		case distinct >= c03ExactLimit:
			r.NotJudged("uniq_at_or_above_exact_limit", 1)
			r.Count("uniq.rows_above_limit", 1)
		case len(hs) != distinct:
			r.NotJudged("uniq_32bit_hash_collision_in_input", 1)
		default:
			r.Count("uniq.rows_exact_judged", 1)
			if _, ok := exp.Uniq[c03ZeroHashValue]; ok {
				r.Count("uniq.rows_with_zero_hash_item", 1)
			}
			r.MaxCounter("uniq.max_distinct_judged", int64(distinct))
			if o.Dec.UniqSize != uint64(distinct) {
				r.Violation("C03/uniq/size/"+class, fmt.Sprintf("API-decoded sketch size %d, exact number of distinct values %d (items written %d, skip degree %d)", o.Dec.UniqSize, distinct, len(row.UniqItems), row.UniqSkip), w())
			}
		}
	} else if len(row.UniqItems) != 0 {
		r.Violation("C03/uniq/unexpected/"+class, fmt.Sprintf("no contribution carried unique values but the row has a sketch with %d items", len(row.UniqItems)), w())
	}
	// digest
	if exp.HasDigest {
		r.Count("digest.rows_judged", 1)
		r.MaxCounter("digest.max_centroids_in_row", int64(len(row.Centroids)))
		var ww float64
		for _, c := range o.Dec.Cent {
			ww += c[1]
			if c[0] < exp.Min-math.Abs(exp.Min)*1e-6-1e-30 || c[0] > exp.Max+math.Abs(exp.Max)*1e-6+1e-30 {
				r.Violation("C03/digest/mean-out-of-range/"+class, fmt.Sprintf("API-decoded centroid mean %v outside [min,max]=[%v,%v]", c[0], exp.Min, exp.Max), w())
				break
			}
		}
		if math.Abs(ww-exp.DigestW) > 1e-4*exp.DigestW+1e-6 {
			r.Violation("C03/digest/weight/"+class, fmt.Sprintf("API-decoded centroid weights sum to %v, contributions sent %v", ww, exp.DigestW), w())
		}
	} else if len(row.Centroids) != 0 {
		r.Violation("C03/digest/unexpected/"+class, fmt.Sprintf("no contribution carried centroids but the row has %d", len(row.Centroids)), w())
	}
	// decoded centroids equal the written ones
	if len(o.Dec.Cent) == len(row.Centroids) {
		a := make([][2]float64, 0, len(row.Centroids))
		for _, c := range row.Centroids {
			a = append(a, [2]float64{float64(c[0]), float64(c[1])})
		}
		b := append([][2]float64(nil), o.Dec.Cent...)
		less := func(s [][2]float64) func(i, j int) bool {
			return func(i, j int) bool {
				if s[i][0] != s[j][0] {
					return s[i][0] < s[j][0]
				}
				return s[i][1] < s[j][1]
			}
		}
		sort.Slice(a, less(a))
		sort.Slice(b, less(b))
		for i := range a {
			if a[i] != b[i] {
				r.Violation("C03/digest/decoded-differs/"+class, fmt.Sprintf("centroid %d written as %v decoded as %v", i, a[i], b[i]), w())
				break
			}
		}
	} else {
		r.NotJudged("digest_recompressed_by_api_reader", 1)
	}
	// hosts
	checkHost := func(name string, got c03Host, empty bool, want map[c03Host]struct{}, must bool) {
		if !must {
			if !empty {
				r.Violation("C03/host/"+name+"-on-counter/"+class, fmt.Sprintf("%s %v on a row without values", name, got), w())
			}
			return
		}
		if _, ok := want[got]; !ok {
			r.Violation("C03/host/"+name+"/"+class, fmt.Sprintf("API-decoded %s %v is none of the hosts that contributed the extreme: {%s}", name, got, c03HostSetString(want)), w())
		}
	}
	checkHost("min_host", o.Dec.MinHost, o.Dec.MinEmpty, exp.minHosts(), exp.HasValue)
	checkHost("max_host", o.Dec.MaxHost, o.Dec.MaxEmpty, exp.maxHosts(), exp.HasValue)
	checkHost("max_count_host", o.Dec.CntHost, o.Dec.CntEmpty, exp.CntHosts, true)
}

func c03Judge(r *verifkit.Run, inst *c03Instance) {
	g := inst.Gen
	stringTopInsert := DefaultConfigAggregator().RemoteInitial.StringTopCountInsert
	// ---- expectation from what was sent and how it was answered
	exp := map[string]*c03Base{}
	dropped := map[string]bool{}
	for _, s := range inst.Sent {
		clean := s.Result.Err == nil && s.Result.Discard && s.Result.Warning == ""
		switch {
		case s.Result.Err != nil:
			r.Count("rpc.error", 1)
		case clean:
			r.Count("rpc.discard", 1)
		case s.Result.Discard:
			r.Count("rpc.discard_with_warning", 1)
		default:
			r.Count("rpc.keep", 1)
		}
		if !clean && r.WantSample() {
			r.Sample(map[string]any{"not_clean_answer": fmt.Sprint(s.Result.Err), "warning": s.Result.Warning, "discard": s.Result.Discard, "historic": s.Send.Historic})
		}
		sender := c03SenderHost(s.Send.Host, g.mapper)
		_ = sender
		for i := range s.Items {
			it := &s.Items[i]
			key, rowTime, clamped := g.expectedKey(it, s.Send.Time)
			if it.Dropped {
				dropped[key] = true
				r.Count("items.invalid_string_tag_sent", 1)
				continue
			}
			b := exp[key]
			if b == nil {
				b = &c03Base{Key: key, Time: rowTime, Metric: it.TL.Metric, Tops: map[string]*c03Acc{}, Sources: map[uint32]struct{}{}, HistSources: map[uint32]struct{}{}, Kind: c03KindNames[g.keys[it.KeyIdx].Kind]}
				exp[key] = b
			}
			b.Clamped = b.Clamped || clamped
			b.FromT = b.FromT || (it.HasT && it.TRel != 0 && !clamped)
			if s.Send.Historic {
				b.HistSources[s.Send.Time] = struct{}{}
			} else {
				b.Sources[s.Send.Time] = struct{}{}
			}
			if !clean {
				b.Tainted = true
				continue
			}
			r.Count("items.merged", 1)
			for c := range it.Contrib {
				cc := &it.Contrib[c]
				a := b.Tops[cc.Top]
				if a == nil {
					a = &c03Acc{}
					b.Tops[cc.Top] = a
				}
				a.add(&cc.MV)
				r.Count("contributions", 1)
			}
		}
	}
	// ---- observation: every INSERT body through the independent reader and the API decoders
	obs := map[string]map[string][]*c03ObsRow{} // base key -> top key -> rows
	bodyBudgetBound := map[int]bool{}
	unreadable := 0
	var colUniq, colPerc, colMin, colMax, colCnt []byte
	var colRows int
	for _, ins := range inst.Engine.CH.Inserts() {
		if ins.Table != "statshouse_v3_incoming" {
			r.Count("insert.other_tables", 1)
			continue
		}
		r.Count("insert.bodies", 1)
		r.Count("insert.bytes", int64(len(ins.Body)))
		where := fmt.Sprintf("instance %d insert #%d (%d bytes)", inst.Idx, ins.Seq, len(ins.Body))
		rows, err := aggengParseBody(ins)
		if err != nil {
			r.Violation("C03/body/not-consumed", "the independent RowBinary reader cannot consume the INSERT body row by row to its last byte: "+err.Error(),
				map[string]any{"where": where, "columns": strings.Join(ins.Columns, ","), "rows_read": len(rows)})
			unreadable++
			continue
		}
		seen := map[string]*c03ObsRow{}
		for i := range rows {
			row := &rows[i]
			r.Count("rows.total", 1)
			dec, _ := c03DecodeRow(r, row, where)
			colUniq = append(colUniq, row.UniqRaw...)
			colPerc = append(colPerc, row.PercRaw...)
			colMin = append(colMin, row.MinHost.Raw...)
			colMax = append(colMax, row.MaxHost.Raw...)
			colCnt = append(colCnt, row.MaxCountHost.Raw...)
			colRows++
			if row.Metric == format.BuiltinMetricIDAggSamplingFactor {
				bodyBudgetBound[ins.Seq] = true
			}
			if row.Metric <= 0 {
				r.Count("rows.builtin", 1)
				continue
			}
			r.Count("rows.user", 1)
			bk := c03BaseKeyString(row.Time, row.Metric, &row.Tags, &row.STags)
			tk := c03TopKey(row.Tags[format.StringTopTagIndexV3], row.STags[format.StringTopTagIndexV3])
			o := &c03ObsRow{Body: ins.Seq, Row: row, Dec: dec}
			full := bk + "\x00" + tk
			if prev := seen[full]; prev != nil {
				key, what := "C03/row/duplicate-in-body", "one INSERT body contains the same (time, metric, tags, string-top) key twice"
				if eb := exp[bk]; eb != nil && len(eb.HistSources) >= 1 {
					// One INSERT carries one recent and several historic aggregator buckets and rows are marshalled
					// bucket by bucket.  A key that reached two of these buckets appears once per bucket: explicit
					// timestamps sent in the buckets of different historic seconds; a historic-conveyor request for a
					// second whose recent bucket is inserted together with it; a historic second whose bucket was
					// taken by the inserter while more requests for it arrived (a fresh bucket of the same second is
					// created and taken by the same inserter).  Keys fed by the recent conveyor only live in exactly
					// one bucket and never get this class.
					key += "/across-buckets-of-one-insert"
					what += fmt.Sprintf(": the key arrived through the historic conveyor (%d historic, %d recent bucket seconds); several aggregator buckets holding it went into one INSERT unmerged", len(eb.HistSources), len(eb.Sources))
				}
				r.Violation(key, what,
					map[string]any{"where": where, "first": c03Witness(bk, tk, prev), "second": c03Witness(bk, tk, o),
						"first_hex": fmt.Sprintf("%x", ins.Body[prev.Row.Off:prev.Row.Off+prev.Row.Len]), "second_hex": fmt.Sprintf("%x", ins.Body[row.Off:row.Off+row.Len])})
			}
			seen[full] = o
			if obs[bk] == nil {
				obs[bk] = map[string][]*c03ObsRow{}
			}
			obs[bk][tk] = append(obs[bk][tk], o)
		}
	}
	// the same bytes column-wise, the way the API reads a result block
	if colRows > 0 {
		var cu chutil.ColUnique
		var ct chutil.ColTDigest
		var cmin chutil.ColArgMinStringFloat32
		var cmax, ccnt chutil.ColArgMaxStringFloat32
		type dc interface {
			DecodeColumn(*proto.Reader, int) error
		}
		for _, c := range []struct {
			name string
			col  dc
			b    []byte
		}{{"uniq_state", &cu, colUniq}, {"percentiles", &ct, colPerc}, {"min_host", &cmin, colMin}, {"max_host", &cmax, colMax}, {"max_count_host", &ccnt, colCnt}} {
			rd := proto.NewReader(bytes.NewReader(c.b))
			if err := c.col.DecodeColumn(rd, colRows); err != nil {
				r.Violation("C03/decode/column/"+c.name, "API column reader fails on the concatenated column of all inserted rows: "+err.Error(), map[string]any{"instance": inst.Idx, "rows": colRows})
			} else if !c03EOF(rd) {
				r.Violation("C03/decode/column-short-read/"+c.name, "API column reader leaves bytes unread on the concatenated column of all inserted rows", map[string]any{"instance": inst.Idx, "rows": colRows})
			}
		}
		r.Count("rows.decoded_columnwise", int64(colRows))
	}
	if unreadable != 0 {
		// rows of unreadable bodies are unknown: the row oracle would only repeat the finding as "missing"
		r.NotJudged("row_oracle_of_instance_with_unreadable_body", 1)
		return
	}
	if len(bodyBudgetBound) != 0 {
		r.Inconclusive(fmt.Sprintf("instance %d: %d INSERT bodies carry __agg_sampling_factor rows: the insert budget did bind", inst.Idx, len(bodyBudgetBound)))
		return
	}
	// ---- oracle
	keys := make([]string, 0, len(exp))
	for k := range exp {
		keys = append(keys, k)
	}
	sort.Strings(keys)
	for _, k := range keys {
		b := exp[k]
		ob := obs[k]
		if b.Tainted {
			r.NotJudged("row_with_contribution_of_unknown_fate", 1)
			continue
		}
		total := &c03Acc{}
		nTops := 0
		for tk, a := range b.Tops {
			total.merge(a)
			if tk != "" && a.N > 0 {
				nTops++
			}
		}
		if total.N == 0 { // only zero-count contributions: no row expected
			if len(ob) != 0 {
				r.Violation("C03/row/unexpected", "row for a key that received only zero-count contributions", map[string]any{"key": k, "instance": inst.Idx})
			}
			continue
		}
		class := b.Kind
		if b.Clamped {
			class += ",clamped-t"
		}
		nRows, split := 0, false
		bodies := map[int]bool{}
		for _, rows := range ob {
			nRows += len(rows)
			if len(rows) > 1 {
				split = true
			}
			for _, o := range rows {
				bodies[o.Body] = true
			}
		}
		if len(bodies) > 1 {
			split = true
		}
		if len(b.Sources)+len(b.HistSources) > 1 {
			r.Count("keys.fed_from_several_bucket_seconds", 1)
		}
		if nRows == 0 {
			r.Violation("C03/row/missing/"+class, fmt.Sprintf("no inserted row for a key that received %d accepted contributions", total.N),
				map[string]any{"key": k, "instance": inst.Idx, "expected": c03ExpWitness(total)})
			r.Case(true, "missing|"+class)
			continue
		}
		nontrivial := total.N >= 2 || total.HasUniq || total.HasDigest || nTops > 0
		shape := fmt.Sprintf("%d|%s|n=%d|tops=%d|rows=%d|u=%d", b.Metric, k[strings.IndexByte(k, '|')+1:], total.N, nTops, nRows, len(total.Uniq))
		r.Case(nontrivial, shape)
		if r.WantSample() && nontrivial && nTops > stringTopInsert {
			r.Sample(map[string]any{"key": k, "kind": b.Kind, "contributions": total.N, "tops_sent": nTops, "rows": nRows, "expected_total": c03ExpWitness(total)})
		}
		overflow := nTops >= data_model.AggregatorStringTopCapacity
		if split || overflow {
			// split: the key went into more than one INSERT (historic wave cut by a tick, explicit timestamps);
			// overflow: more distinct top values than the aggregator keeps per key, it moves random ones to the
			// tail while merging.  Only conservation over all rows of the key is demanded.
			if split {
				r.Count("keys.split_across_inserts", 1)
				r.NotJudged("per_top_rows_of_key_split_across_inserts", 1)
			} else {
				r.Count("keys.top_capacity_overflow", 1)
				r.NotJudged("per_top_rows_of_key_above_top_capacity", 1)
			}
			var cnt, sum float64
			for tk, rows := range ob {
				var tc float64
				for _, o := range rows {
					cnt += o.Row.Count
					sum += o.Row.Sum
					tc += o.Row.Count
				}
				if a := b.Tops[tk]; tk != "" && (a == nil || tc > a.Count+1e-9*a.CountAbs) {
					ec := 0.0
					if a != nil {
						ec = a.Count
					}
					r.Violation("C03/merge/top-exceeds-contributions/"+class, fmt.Sprintf("string-top rows of value %q have count %v, contributions for that value give %v", tk, tc, ec),
						map[string]any{"key": k, "instance": inst.Idx})
				}
			}
			r.Count("rows.judged", int64(nRows))
			if !c03Near(cnt, total.Count, total.CountAbs) || (total.HasValue && !c03Near(sum, total.Sum, total.SumAbs)) {
				r.Violation("C03/merge/total/"+class, fmt.Sprintf("the %d rows of the key (in %d inserts) have count %v sum %v, contributions give %v / %v", nRows, len(bodies), cnt, sum, total.Count, total.Sum),
					map[string]any{"key": k, "instance": inst.Idx})
			}
			continue
		}
		// exactly one body, every top at most once
		kept := 0
		folded := &c03Acc{}
		if t := b.Tops[""]; t != nil {
			folded.merge(t)
		}
		var topKeys []string
		for tk := range b.Tops {
			topKeys = append(topKeys, tk)
		}
		sort.Strings(topKeys)
		for _, tk := range topKeys {
			a := b.Tops[tk]
			if tk == "" || a.N == 0 {
				continue
			}
			rows := ob[tk]
			if len(rows) == 0 {
				folded.merge(a) // not among the inserted tops: must have been folded into the tail row
				continue
			}
			kept++
			r.Count("rows.judged", 1)
			c03CompareRow(r, inst, b, tk, rows[0], a, class+",top")
		}
		for tk, rows := range ob {
			if tk == "" {
				continue
			}
			if a := b.Tops[tk]; a == nil || a.N == 0 {
				r.Violation("C03/row/unexpected-top/"+class, "inserted string-top row whose top value no contribution carried",
					map[string]any{"key": k, "instance": inst.Idx, "row": c03Witness(k, tk, rows[0])})
			}
		}
		if nTops > 0 {
			r.Count("keys.with_tops", 1)
			wantKept := min(nTops, stringTopInsert)
			if kept != wantKept {
				r.Violation("C03/top/kept-count/"+class, fmt.Sprintf("%d string-top rows inserted for a key with %d distinct top values (StringTopCountInsert=%d)", kept, nTops, stringTopInsert),
					map[string]any{"key": k, "instance": inst.Idx})
			}
			if nTops > stringTopInsert {
				r.Count("keys.with_folded_tops", 1)
			}
		}
		tail := ob[""]
		if folded.N == 0 {
			if len(tail) != 0 {
				r.Violation("C03/row/unexpected-tail/"+class, "tail row inserted although nothing was sent for the tail and no top value was folded",
					map[string]any{"key": k, "instance": inst.Idx, "row": c03Witness(k, "", tail[0])})
			}
			continue
		}
		if len(tail) == 0 {
			r.Violation("C03/row/missing-tail/"+class, fmt.Sprintf("no tail row although %d contributions (own tail + folded top values) belong to it", folded.N),
				map[string]any{"key": k, "instance": inst.Idx, "expected": c03ExpWitness(folded)})
			continue
		}
		r.Count("rows.judged", 1)
		cl := class
		if kept < nTops {
			cl += ",folded-tail"
		}
		c03CompareRow(r, inst, b, "", tail[0], folded, cl)
	}
	// rows that nothing accounts for
	for bk, ob := range obs {
		if exp[bk] != nil {
			continue
		}
		var anyRow *c03ObsRow
		for _, rows := range ob {
			anyRow = rows[0]
		}
		if dropped[bk] {
			r.Violation("C03/row/from-dropped-item", "row inserted for an item whose string tag is not a valid tag value (the item must be dropped)",
				map[string]any{"key": bk, "instance": inst.Idx, "row": c03Witness(bk, "", anyRow)})
			continue
		}
		r.Violation("C03/row/unexpected", "inserted user-metric row that no contribution accounts for", map[string]any{"key": bk, "instance": inst.Idx, "row": c03Witness(bk, "", anyRow)})
	}
	for k := range dropped {
		if exp[k] == nil && obs[k] == nil {
			r.Count("items.invalid_string_tag_no_row", 1)
		}
	}
}

var _ = rand.IntN
var _ = testing.Short
