//go:build verif

package balancer

// C31: the balancer forwards every accepted packet upstream promptly and in order.
//
// Real Egress + handler, real TCP to local listeners that play the upstream.  Every packet
// carries (scenario, id) and a payload that is a pure function of them, so the listener can
// verify each frame byte for byte on arrival.  Scenarios (arrival patterns, upstream
// faults, buffer overflow) run concurrently because most of them end with the 15-s
// quiescence wait of the delay clause.
//
// Wall clock is used only for the two bounds DESIGN allows for C31 (15 s undelivered with
// the upstream connected and no further traffic => violation, 3-15 s => recorded "slow").

import (
	"bytes"
	"context"
	"encoding/binary"
	"fmt"
	"io"
	"math/rand/v2"
	"net"
	"os"
	"strconv"
	"runtime/debug"
	"sort"
	"sync"
	"sync/atomic"
	"syscall"
	"testing"
	"time"

	"github.com/VKCOM/statshouse/internal/data_model/gen2/tlstatshouse"
	"github.com/VKCOM/statshouse/internal/receiver"
	"github.com/VKCOM/statshouse/internal/zzverif/verifkit"
)

const (
	c31Magic    = 0xC31C31C3
	c31HdrLen   = 16 // magic u32, scenario u32, id u64
	c31DelayMax = 15 * time.Second
	c31SlowMin  = 3 * time.Second

	c31KeyTimer     = "C31/delay/lone-packet-timer-never-wakes-sender"
	c31KeyStuck     = "C31/delay/accepted-packet-not-forwarded-with-upstream-connected"
	c31KeyLate      = "C31/delay/packet-forwarded-later-than-15s"
	c31KeyLoss      = "C31/loss/accepted-packet-never-forwarded"
	c31KeyGapInConn = "C31/loss/gap-inside-live-connection"
	c31KeyBoundary  = "C31/loss/connection-boundary-without-counted-write-error"
	c31KeyOrder     = "C31/order/ids-not-increasing-on-connection"
	c31KeyDup       = "C31/order/packet-forwarded-twice"
	c31KeyBytes     = "C31/bytes/frame-differs-from-accepted-packet"
	c31KeyForeign   = "C31/bytes/frame-that-nobody-sent"
	c31KeyPartial   = "C31/bytes/partial-frame-on-cleanly-ended-connection"
	c31KeyHandshake = "C31/bytes/handshake-differs"
	c31KeyAccount   = "C31/accounting/packet-not-counted-exactly-once"
	c31KeyDropEarly = "C31/drops/dropped-although-a-buffer-had-room"
	c31KeyDropDeliv = "C31/drops/packet-counted-as-dropped-was-forwarded"
	c31KeyDropRep   = "C31/drops/reported-less-than-dropped"
	c31KeyDropMore  = "C31/drops/reported-more-than-dropped"
	c31KeyDropLate  = "C31/drops/report-not-sent-within-15s"
	c31KeyStats     = "C31/accounting/stats-differ-from-per-packet-outcomes"
	c31KeyNoAddr    = "C31/delay/accepted-into-sender-that-has-no-upstream-address"
	c31KeyHang      = "C31/delay/hung-upstream-write-never-times-out"
	c31KeyNoRecon   = "C31/delay/stuck-sender-not-reconnected-after-failover"
)

// ---------------------------------------------------------------- packets

func c31Mix(x uint64) uint64 {
	x += 0x9e3779b97f4a7c15
	x = (x ^ (x >> 30)) * 0xbf58476d1ce4e5b9
	x = (x ^ (x >> 27)) * 0x94d049bb133111eb
	return x ^ (x >> 31)
}

// c31Block is the pseudo-random block of a scenario; the payload of packet id is the slice
// of it that starts at an id-dependent offset (copying is much cheaper under -race than
// generating every byte, and still makes every packet's bytes a function of (scenario, id, size)).
func c31Block(scn uint32) []byte {
	b := make([]byte, 2*pktBodyMax+8)
	x := c31Mix(uint64(scn) << 40)
	for i := 0; i+8 <= len(b); i += 8 {
		x = c31Mix(x)
		binary.LittleEndian.PutUint64(b[i:], x)
	}
	return b
}

func c31Payload(block []byte, id uint64, n int) []byte {
	off := int(c31Mix(id) % uint64(pktBodyMax))
	return block[off : off+n]
}

// c31Fill writes the body of packet (scn, id) into dst (len(dst) >= c31HdrLen).
func c31Fill(dst []byte, block []byte, scn uint32, id uint64) {
	binary.LittleEndian.PutUint32(dst[0:], c31Magic)
	binary.LittleEndian.PutUint32(dst[4:], scn)
	binary.LittleEndian.PutUint64(dst[8:], id)
	copy(dst[c31HdrLen:], c31Payload(block, id, len(dst)-c31HdrLen))
}

type c31Pkt struct {
	id      uint64
	size    int
	at      time.Time
	outcome int8 // 0 unknown, 1 accepted, 2 dropped
}

// ---------------------------------------------------------------- upstream

type c31Frame struct {
	id   uint64
	at   time.Time
	size int
}

type c31Conn struct {
	up       *c31Up
	idx      int
	accepted time.Time
	hs       []byte
	frames   []c31Frame // numbered packets in arrival order
	reports  []float64  // values of __src_client_write_err frames
	bad      []string
	foreign  int
	bytes    int
	tail     int  // bytes of an incomplete frame left when the connection ended
	ended    bool // reader saw EOF / error / closed it
	byUp     bool // the upstream side closed it (fault injection)
	nc       net.Conn
}

type c31Up struct {
	env        *c31Env
	ln         net.Listener
	addr       string
	mu         sync.Mutex
	conns      []*c31Conn
	stalled    atomic.Bool
	throttleUs atomic.Int64 // > 0: read at most 2 KB, then sleep that many microseconds (a slow upstream)
	rateBps    atomic.Int64 // > 0: read at this many bytes per second on average (oversleeping is made up for)
	closeAfter []int // by accept index; 0 = never
	wg         sync.WaitGroup
}

func c31Listen(env *c31Env, addr string, closeAfter []int, stalled bool) (*c31Up, error) {
	lc := net.ListenConfig{}
	if stalled {
		// a small receive buffer (inherited by accepted sockets) makes a stalled upstream push back
		// after a few kilobytes instead of several megabytes
		lc.Control = func(network, address string, rc syscall.RawConn) error {
			return rc.Control(func(fd uintptr) { _ = syscall.SetsockoptInt(int(fd), syscall.SOL_SOCKET, syscall.SO_RCVBUF, 8192) })
		}
	}
	ln, err := lc.Listen(context.Background(), "tcp", addr)
	if err != nil {
		return nil, err
	}
	u := &c31Up{env: env, ln: ln, addr: ln.Addr().String(), closeAfter: closeAfter}
	u.stalled.Store(stalled)
	u.wg.Add(1)
	go u.acceptLoop()
	return u, nil
}

// c31Reserve binds a loopback port without listening on it: connects are refused, and no
// other process can take the port until c31ListenFD turns the same socket into a listener.
func c31Reserve() (fd int, addr string, err error) {
	fd, err = syscall.Socket(syscall.AF_INET, syscall.SOCK_STREAM|syscall.SOCK_CLOEXEC, 0)
	if err != nil {
		return -1, "", err
	}
	if err = syscall.Bind(fd, &syscall.SockaddrInet4{Addr: [4]byte{127, 0, 0, 1}}); err != nil {
		_ = syscall.Close(fd)
		return -1, "", err
	}
	sa, err := syscall.Getsockname(fd)
	if err != nil {
		_ = syscall.Close(fd)
		return -1, "", err
	}
	return fd, fmt.Sprintf("127.0.0.1:%d", sa.(*syscall.SockaddrInet4).Port), nil
}

func c31ListenFD(env *c31Env, fd int) (*c31Up, error) {
	if err := syscall.Listen(fd, 128); err != nil {
		_ = syscall.Close(fd)
		return nil, err
	}
	f := os.NewFile(uintptr(fd), "c31-upstream")
	ln, err := net.FileListener(f)
	_ = f.Close()
	if err != nil {
		return nil, err
	}
	u := &c31Up{env: env, ln: ln, addr: ln.Addr().String()}
	u.wg.Add(1)
	go u.acceptLoop()
	return u, nil
}

func (u *c31Up) acceptLoop() {
	defer u.wg.Done()
	for {
		nc, err := u.ln.Accept()
		if err != nil {
			return
		}
		u.mu.Lock()
		c := &c31Conn{up: u, idx: len(u.conns), accepted: time.Now(), nc: nc}
		u.conns = append(u.conns, c)
		limit := 0
		if c.idx < len(u.closeAfter) {
			limit = u.closeAfter[c.idx]
		}
		u.mu.Unlock()
		u.env.noteAccept()
		u.wg.Add(1)
		go c.read(limit)
	}
}

func (u *c31Up) close() {
	_ = u.ln.Close()
	// the balancer has closed its side: let the readers drain to EOF before forcing them
	for t0 := time.Now(); time.Since(t0) < 10*time.Second; time.Sleep(5 * time.Millisecond) {
		u.mu.Lock()
		open := 0
		for _, c := range u.conns {
			if !c.ended {
				open++
			}
		}
		u.mu.Unlock()
		if open == 0 {
			break
		}
	}
	u.mu.Lock()
	for _, c := range u.conns {
		_ = c.nc.Close()
	}
	u.mu.Unlock()
	u.wg.Wait()
}

func (c *c31Conn) read(limit int) {
	defer c.up.wg.Done()
	env := c.up.env
	hsLen := len(env.wantHS)
	tmp := make([]byte, 256<<10)
	var pend []byte
	var scratch []byte
	var rateT0 time.Time
	var rateN int64
	for {
		for c.up.stalled.Load() {
			time.Sleep(2 * time.Millisecond)
		}
		rb := tmp
		if rate := c.up.rateBps.Load(); rate > 0 {
			if rateT0.IsZero() {
				rateT0, rateN = time.Now(), 0
			}
			rb = tmp[:2048]
			if due := rateT0.Add(time.Duration(float64(rateN) / float64(rate) * float64(time.Second))); time.Until(due) > 0 {
				time.Sleep(time.Until(due))
			}
		} else if !rateT0.IsZero() {
			rateT0 = time.Time{}
		}
		if th := c.up.throttleUs.Load(); th > 0 {
			rb = tmp[:2048]
			time.Sleep(time.Duration(th) * time.Microsecond)
		}
		n, err := c.nc.Read(rb)
		rateN += int64(n)
		now := time.Now()
		if n > 0 {
			pend = append(pend, tmp[:n]...)
			c.up.mu.Lock()
			c.bytes += n
			off := 0
			if len(c.hs) < hsLen {
				k := min(hsLen-len(c.hs), len(pend))
				c.hs = append(c.hs, pend[:k]...)
				off = k
			}
			for len(c.hs) == hsLen && off+pktHeadLen <= len(pend) {
				l := int(binary.LittleEndian.Uint32(pend[off:]))
				if l > pktBodyMax {
					c.bad = append(c.bad, fmt.Sprintf("frame length %d exceeds the maximum %d", l, pktBodyMax))
					off = len(pend)
					break
				}
				if off+pktHeadLen+l > len(pend) {
					break
				}
				c.frame(pend[off+pktHeadLen:off+pktHeadLen+l], now, scratch)
				off += pktHeadLen + l
			}
			pend = pend[:copy(pend, pend[off:])]
			total := c.bytes
			c.up.mu.Unlock()
			if limit > 0 && total >= limit {
				c.up.mu.Lock()
				c.byUp, c.ended, c.tail = true, true, len(pend)
				c.up.mu.Unlock()
				_ = c.nc.Close()
				return
			}
		}
		if err != nil {
			c.up.mu.Lock()
			c.ended, c.tail = true, len(pend)
			c.up.mu.Unlock()
			_ = c.nc.Close()
			return
		}
	}
}

// c31ParseReport recognises a __src_client_write_err frame body and returns the reported byte count.
func c31ParseReport(body []byte, hostTag string) (float64, bool) {
	var batch tlstatshouse.AddMetricsBatch
	if rest, err := batch.ReadTL1Boxed(body); err == nil && len(rest) == 0 && len(batch.Metrics) == 1 &&
		batch.Metrics[0].Name == "__src_client_write_err" && batch.Metrics[0].IsSetValue() && len(batch.Metrics[0].Value) == 1 &&
		batch.Metrics[0].Tags["_h"] == hostTag && batch.Metrics[0].Tags["2"] == "1" {
		return batch.Metrics[0].Value[0], true
	}
	return 0, false
}

// c31SlowConn is the connection handed to the real reportWouldBlockIfAny in the scenario
// "report-over-slow-connection": its Write takes as long as it takes the producers to have a
// few more packets refused (a slow upstream at the very moment of the report), then succeeds.
type c31SlowConn struct {
	v      *c31Env
	frames int
	bad    int
}

func (c *c31SlowConn) Write(b []byte) (int, error) {
	v := c.v
	if len(b) >= pktHeadLen && int(binary.LittleEndian.Uint32(b)) == len(b)-pktHeadLen {
		if val, ok := c31ParseReport(b[pktHeadLen:], v.hostTag); ok {
			v.reported.Add(int64(val))
			v.reportFrames.Add(1)
			c.frames++
		} else {
			c.bad++
		}
	} else {
		c.bad++
	}
	v.mu.Lock()
	d0 := v.nDropped
	v.mu.Unlock()
	for t0 := time.Now(); time.Since(t0) < 5*time.Second; time.Sleep(50 * time.Microsecond) {
		v.mu.Lock()
		d := v.nDropped
		v.mu.Unlock()
		if d >= d0+20 {
			break
		}
	}
	return len(b), nil
}
func (c *c31SlowConn) Read([]byte) (int, error)         { return 0, io.EOF }
func (c *c31SlowConn) Close() error                     { return nil }
func (c *c31SlowConn) LocalAddr() net.Addr              { return &net.TCPAddr{} }
func (c *c31SlowConn) RemoteAddr() net.Addr             { return &net.TCPAddr{} }
func (c *c31SlowConn) SetDeadline(time.Time) error      { return nil }
func (c *c31SlowConn) SetReadDeadline(time.Time) error  { return nil }
func (c *c31SlowConn) SetWriteDeadline(time.Time) error { return nil }

// frame is called with c.up.mu held.
func (c *c31Conn) frame(body []byte, now time.Time, scratch []byte) {
	env := c.up.env
	if len(body) >= c31HdrLen && binary.LittleEndian.Uint32(body) == c31Magic {
		scn := binary.LittleEndian.Uint32(body[4:])
		id := binary.LittleEndian.Uint64(body[8:])
		if scn != env.scn || !bytes.Equal(c31Payload(env.block, id, len(body)-c31HdrLen), body[c31HdrLen:]) {
			if len(c.bad) < 5 {
				c.bad = append(c.bad, fmt.Sprintf("frame of %d bytes claiming packet %d of scenario %d differs from what that packet contains", len(body), id, scn))
			}
			return
		}
		c.frames = append(c.frames, c31Frame{id: id, at: now, size: len(body)})
		env.noteDelivered(id)
		return
	}
	if val, ok := c31ParseReport(body, env.hostTag); ok {
		c.reports = append(c.reports, val)
		env.reported.Add(int64(val))
		env.reportFrames.Add(1)
		return
	}
	c.foreign++
	if len(c.bad) < 5 {
		c.bad = append(c.bad, fmt.Sprintf("frame of %d bytes that is neither a numbered packet nor a write_err report: % x", len(body), body[:min(len(body), 24)]))
	}
}

// ---------------------------------------------------------------- scenario environment

type c31Scenario struct {
	Kind   string `json:"kind"`
	Index  int    `json:"index"`
	Params string `json:"params"`

	nAddr           int
	cfg             EgressConfig
	closeAfter      []int
	producers       int
	lateStart       bool
	stall           bool
	wantDrops       int
	realHandler     bool // newHandler (30 s stats loop) instead of an identical handler with a long report interval
	faultFree       bool
	boundaryRules   bool // losses are attributed to connection boundaries of a sender (stuck-recon off)
	run             func(v *c31Env)
	seed            uint64
}

type c31Env struct {
	r   *verifkit.Run
	sc  *c31Scenario
	scn uint32
	ups []*c31Up
	e   *Egress
	h   *handler

	mu         sync.Mutex
	pkts       map[uint64]*c31Pkt
	pushOrder  []uint64
	delivered  map[uint64]int
	nAccepted  int
	nDropped   int
	nUnknown   int
	droppedB   int64
	pendingAcc int // accepted (known) and not yet delivered
	lastPush   time.Time
	lastAccept time.Time
	empties    int

	reported     atomic.Int64
	reportFrames atomic.Int64
	noFailover   bool
	pushMu       sync.Mutex // serialises producers where per-packet outcomes are needed (the handler serialises them anyway)
	hostTag  string
	block    []byte
	wantHS   []byte // "statshousev" '2' u32(len(host)) host — written from the documented handshake, not from fillDefaults
	started  time.Time
	stats    EgressStats
	explained map[uint64]bool // undelivered packets already attributed to a finding by quiesce

	lastF, lastD uint64
	statsSwapped bool
	single       bool
}

func (v *c31Env) noteAccept() {
	v.mu.Lock()
	v.lastAccept = time.Now()
	v.mu.Unlock()
}

func (v *c31Env) noteDelivered(id uint64) {
	v.mu.Lock()
	v.delivered[id]++
	if v.delivered[id] == 1 {
		if p := v.pkts[id]; p != nil && p.outcome == 1 {
			v.pendingAcc--
		}
	}
	v.mu.Unlock()
}

func (v *c31Env) witness(extra map[string]any) map[string]any {
	m := map[string]any{"scenario": v.sc}
	for k, x := range extra {
		m[k] = x
	}
	return m
}

func (v *c31Env) viol(key, what string, extra map[string]any) {
	v.r.Violation(key, fmt.Sprintf("[%s] %s", v.sc.Kind, what), v.witness(extra))
}

func (v *c31Env) bufFill() (int, int) {
	a, b := v.e.pool.primary.buf, v.e.pool.secondary.buf
	a.mu.Lock()
	x := a.wi
	a.mu.Unlock()
	b.mu.Lock()
	y := b.wi
	b.mu.Unlock()
	return x, y
}

// push offers one packet through the handler (the path every receiver uses).
func (v *c31Env) push(id uint64, size int, scratch []byte) *c31Pkt {
	body := scratch[:size]
	c31Fill(body, v.block, v.scn, id)
	p := &c31Pkt{id: id, size: size}
	var w1, w2 int
	var f0, d0 uint64
	if v.single {
		w1, w2 = v.bufFill()
		f0, d0 = v.e.stats.forwardedPackets.Load(), v.e.stats.droppedPackets.Load()
		if f0 != v.lastF || d0 != v.lastD {
			v.statsSwapped = true // the handler's report loop called Stats() (swap to zero)
		}
	}
	v.mu.Lock()
	p.at = time.Now()
	v.pkts[id] = p
	v.pushOrder = append(v.pushOrder, id)
	v.lastPush = p.at
	v.mu.Unlock()
	_ = v.h.HandleMetricsBatchRaw(body)
	if !v.single {
		return p
	}
	f1, d1 := v.e.stats.forwardedPackets.Load(), v.e.stats.droppedPackets.Load()
	v.lastF, v.lastD = f1, d1
	v.mu.Lock()
	defer v.mu.Unlock()
	switch {
	case f1 == f0+1 && d1 == d0:
		p.outcome = 1
		v.nAccepted++
		if v.delivered[id] == 0 {
			v.pendingAcc++
		}
	case f1 == f0 && d1 == d0+1:
		p.outcome = 2
		v.nDropped++
		v.droppedB += int64(pktHeadLen + size)
		if w1 < bufferLen || w2 < bufferLen {
			v.viol(c31KeyDropEarly, fmt.Sprintf("packet %d was counted as dropped although the write buffers held %d and %d of %d packets just before the call and only this producer adds to them", id, w1, w2, bufferLen),
				map[string]any{"packet": id, "fill_before_call": []int{w1, w2}, "capacity": bufferLen})
		}
	case f1 < f0 || d1 < d0:
		v.statsSwapped = true
		v.nUnknown++
		v.r.NotJudged("outcome_unknown_stats_swapped_during_call", 1)
	case v.sc.realHandler && (f0 <= 1 || d0 <= 1):
		// a Stats() swap by the handler's 30-s report loop between the two reads can hide an increment
		// when the counter was 0 or 1; only handlers without that loop judge this case
		v.nUnknown++
		v.r.NotJudged("outcome_ambiguous_next_to_a_possible_stats_swap", 1)
	default:
		v.viol(c31KeyAccount, fmt.Sprintf("offering packet %d changed forwarded by %d and dropped by %d (exactly one of them must grow by 1)", id, f1-f0, d1-d0), map[string]any{"packet": id})
	}
	return p
}

func (v *c31Env) allDelivered() bool {
	v.mu.Lock()
	defer v.mu.Unlock()
	if v.single {
		return v.pendingAcc == 0
	}
	return uint64(len(v.delivered)) >= v.e.stats.forwardedPackets.Load()
}

func (v *c31Env) undelivered() (ids []uint64) {
	v.mu.Lock()
	defer v.mu.Unlock()
	for _, id := range v.pushOrder {
		p := v.pkts[id]
		if v.delivered[id] == 0 && (p.outcome == 1 || !v.single) {
			ids = append(ids, id)
		}
	}
	return
}

type c31BufState struct {
	Sender    string   `json:"sender"`
	Wi        int      `json:"write_index"`
	Addrs     int      `json:"upstream_addresses"`
	Closed    bool     `json:"closed"`
	Threshold int      `json:"batch_threshold"`
	Buffered  []uint64 `json:"buffered_ids_head"`
	PendingWB int64    `json:"would_block_bytes_pending"`
}

func (v *c31Env) bufStates() []c31BufState {
	var out []c31BufState
	for i, s := range []*tcpSender{v.e.pool.primary, v.e.pool.secondary} {
		b := s.buf
		s.poolMu.Lock()
		na := len(s.pool.addrs)
		s.poolMu.Unlock()
		b.mu.Lock()
		// only the write side is read: it is the part of the buffer that b.mu protects
		st := c31BufState{Sender: []string{"primary", "secondary"}[i], Wi: b.wi, Addrs: na, Closed: b.closed, Threshold: bufferLen * 20 / 100, PendingWB: s.wouldBlockBytes.Load()}
		for k := 0; k < b.wi && k < 8; k++ {
			if p := b.w[k]; len(p) >= pktHeadLen+c31HdrLen {
				st.Buffered = append(st.Buffered, binary.LittleEndian.Uint64(p[pktHeadLen+8:]))
			}
		}
		b.mu.Unlock()
		out = append(out, st)
	}
	return out
}

// bufferedIDs returns the ids sitting in the write side of the two buffers.
func (v *c31Env) bufferedIDs() map[uint64]bool {
	out := map[uint64]bool{}
	for _, s := range []*tcpSender{v.e.pool.primary, v.e.pool.secondary} {
		b := s.buf
		b.mu.Lock()
		for k := 0; k < b.wi; k++ {
			if p := b.w[k]; len(p) >= pktHeadLen+c31HdrLen && binary.LittleEndian.Uint32(p[pktHeadLen:]) == c31Magic {
				out[binary.LittleEndian.Uint64(p[pktHeadLen+8:])] = true
			}
		}
		b.mu.Unlock()
	}
	return out
}

// stuckNow: accepted packets the balancer still owes.  Fault-free scenarios: every
// undelivered accepted packet.  Fault scenarios: bytes written into a connection that the
// peer then cut are gone for good, so only packets still sitting in a buffer count.
func (v *c31Env) stuckNow() []uint64 {
	if v.allDelivered() {
		return nil
	}
	ids := v.undelivered()
	if v.sc.faultFree {
		return ids
	}
	in := v.bufferedIDs()
	var out []uint64
	for _, id := range ids {
		if in[id] {
			out = append(out, id)
		}
	}
	return out
}

// ownedBySenderWithoutAddress: every given packet sits in the write buffer of a sender whose
// address pool is empty (it can never connect).
func (v *c31Env) ownedBySenderWithoutAddress(ids []uint64) bool {
	if len(ids) == 0 {
		return false
	}
	in := map[uint64]bool{}
	for _, s := range []*tcpSender{v.e.pool.primary, v.e.pool.secondary} {
		s.poolMu.Lock()
		na := len(s.pool.addrs)
		s.poolMu.Unlock()
		if na != 0 {
			continue
		}
		b := s.buf
		b.mu.Lock()
		for k := 0; k < b.wi; k++ {
			if p := b.w[k]; len(p) >= pktHeadLen+c31HdrLen {
				in[binary.LittleEndian.Uint64(p[pktHeadLen+8:])] = true
			}
		}
		b.mu.Unlock()
	}
	for _, id := range ids {
		if !in[id] {
			return false
		}
	}
	return true
}

// shrinkSendBuffers emulates a host with a minimal TCP send buffer: it finds the balancer's own
// client sockets (same process; peer port = one of this scenario's listeners) and sets SO_SNDBUF
// to the minimum.  The balancer code is untouched; every write to such a socket, the 100-byte
// write_err report included, then waits until the upstream has acknowledged what was written before.
func (v *c31Env) shrinkSendBuffers() int {
	ports := map[int]bool{}
	for _, u := range v.ups {
		if ta, ok := u.ln.Addr().(*net.TCPAddr); ok {
			ports[ta.Port] = true
		}
	}
	ents, err := os.ReadDir("/proc/self/fd")
	if err != nil {
		return 0
	}
	n := 0
	for _, e := range ents {
		fd, err := strconv.Atoi(e.Name())
		if err != nil {
			continue
		}
		psa, err := syscall.Getpeername(fd)
		if err != nil {
			continue
		}
		p4, ok := psa.(*syscall.SockaddrInet4)
		if !ok || !ports[p4.Port] {
			continue
		}
		lsa, err := syscall.Getsockname(fd)
		if err != nil {
			continue
		}
		if l4, ok := lsa.(*syscall.SockaddrInet4); !ok || ports[l4.Port] {
			continue // the accepted (listener) side
		}
		if syscall.SetsockoptInt(fd, syscall.SOL_SOCKET, syscall.SO_SNDBUF, 4608) == nil {
			n++
		}
	}
	return n
}

func (v *c31Env) wakeSenders() {
	// a spurious wake-up is always permitted for a sync.Cond waiter; it changes no data
	v.e.pool.primary.buf.cond.Broadcast()
	v.e.pool.secondary.buf.cond.Broadcast()
}

// pendingReport: dropped bytes the senders still hold for the next report.
func (v *c31Env) pendingReport() int64 {
	return v.e.pool.primary.wouldBlockBytes.Load() + v.e.pool.secondary.wouldBlockBytes.Load()
}

func (v *c31Env) reportsComplete() bool {
	v.mu.Lock()
	d := v.droppedB
	v.mu.Unlock()
	return v.reported.Load() >= d
}

// quiesce implements the delay clause: with the upstream connected and no further traffic,
// everything accepted must be forwarded within 15 s.
func (v *c31Env) quiesce() {
	deadline := func() time.Time {
		v.mu.Lock()
		defer v.mu.Unlock()
		t := v.lastPush
		if v.lastAccept.After(t) {
			t = v.lastAccept
		}
		return t.Add(c31DelayMax)
	}
	// the bound is 15 s of wall clock AND at least 500 polls of 20 ms by this very loop: on a
	// machine so loaded that the harness itself is not scheduled the clock alone proves nothing
	for polls := 0; !(v.allDelivered() && v.reportsComplete()) && (time.Now().Before(deadline()) || polls < 400); polls++ {
		time.Sleep(20 * time.Millisecond)
	}
	stuck := v.stuckNow()
	repOK := v.reportsComplete()
	if len(stuck) == 0 && repOK {
		return
	}
	states := v.bufStates()
	wiped := len(stuck) == 0 && !repOK && v.pendingReport() == 0
	// root-cause discriminator: wake the senders without touching any data.  If that alone gets
	// everything forwarded, the senders were asleep in pktBuffer.swap past the batch timeout.
	v.wakeSenders()
	t1 := time.Now().Add(c31DelayMax)
	for polls := 0; !wiped && !(v.allDelivered() && v.reportsComplete()) && (time.Now().Before(t1) || polls < 400); polls++ {
		time.Sleep(20 * time.Millisecond)
		v.wakeSenders()
		if polls >= 150 && v.ownedBySenderWithoutAddress(v.stuckNow()) {
			break // structural evidence: nothing can ever leave that buffer
		}
		if polls >= 150 && v.sc.Kind == "stuck-primary-reconnect" {
			break // a wake-up cannot shorten a write into a slow connection
		}
		if polls >= 150 && v.sc.Kind == "upstream-hang-failover" && v.e.stats.writeErrors.Load() == 0 {
			break // the senders sit in a write that has no deadline: a wake-up cannot reach them
		}
	}
	still := v.stuckNow()
	extra := map[string]any{"undelivered_after_15s": len(stuck), "first_undelivered": stuck[:min(len(stuck), 8)], "buffers_at_15s": states,
		"undelivered_after_wakeup": len(still), "dropped_bytes": v.droppedB, "reported_bytes_at_15s_or_later": v.reported.Load()}
	noAddr := v.ownedBySenderWithoutAddress(still)
	if len(still) > 0 {
		extra["buffers_after_wakeup"] = v.bufStates()
	}
	switch {
	case len(stuck) > 0 && len(still) == 0:
		v.r.Count("delay.stuck_packets_released_by_wakeup", int64(len(stuck)))
		v.viol(c31KeyTimer, fmt.Sprintf("%d accepted packet(s) (first id %d) were still buffered 15 s after the last packet with the upstream connected; a bare Broadcast on the buffer's condition variable got them forwarded: the batch timer had expired without waking the sender", len(stuck), stuck[0]), extra)
	case len(stuck) > 0 && noAddr:
		for _, id := range still {
			v.explained[id] = true
		}
		v.viol(c31KeyNoAddr, fmt.Sprintf("%d accepted packet(s) sit in the buffer of the sender that has no upstream address and were not forwarded well after traffic stopped (15 s, then woken)", len(still)), extra)
	case len(stuck) > 0 && v.sc.Kind == "upstream-hang-failover" && v.e.stats.writeErrors.Load() == 0:
		for _, id := range stuck {
			v.explained[id] = true
		}
		if !repOK {
			repOK = true // the pending write_err report sits behind the same blocked write: one root cause, one finding
			v.r.NotJudged("drop_report_pending_behind_a_write_that_never_times_out", 1)
		}
		v.viol(c31KeyHang, fmt.Sprintf("%d accepted packet(s) are still buffered 15 s (2.5 x the configured write timeout of %v) after the upstreams holding the connections stopped reading; no write error was counted, so the senders never left the blocked write although each has a healthy second address", len(stuck), v.e.cfg.WriteTimeout), extra)
	case len(stuck) > 0 && v.sc.Kind == "stuck-primary-reconnect":
		for _, id := range stuck {
			v.explained[id] = true
		}
		v.viol(c31KeyNoRecon, fmt.Sprintf("%d accepted packet(s) (first id %d) are still not forwarded 15 s after the full primary buffer made the next packet fail over to the secondary: the sender on the slow connection (about 100 KB/s) was not made to reconnect to its healthy second address (write timeout is %v, stuck-reconnect delay %v)", len(stuck), stuck[0], v.e.cfg.WriteTimeout, v.e.cfg.StuckReconDelay), extra)
	case len(stuck) > 0:
		v.viol(c31KeyStuck, fmt.Sprintf("%d accepted packet(s) not forwarded 15 s after the last packet, %d still not after waking the senders", len(stuck), len(still)), extra)
	}
	if !repOK && v.e.stats.writeErrors.Load() > 0 {
		v.r.NotJudged("drop_report_possibly_lost_with_a_failed_connection", 1)
	} else if !repOK {
		extra["pending_in_counters"] = v.pendingReport()
		extra["report_frames"] = v.reportFrames.Load()
		switch rep, pend := v.reported.Load(), v.pendingReport(); {
		case rep >= v.droppedB:
			v.r.Count("drops.report_released_by_wakeup", 1)
			v.viol(c31KeyTimer, fmt.Sprintf("%d dropped bytes were counted but the report was still not upstream 15 s after traffic stopped; a bare Broadcast on the buffer's condition variable got it sent: the batch timer had expired without waking the sender", v.droppedB), extra)
		case rep+pend >= v.droppedB:
			v.viol(c31KeyDropLate, fmt.Sprintf("%d dropped bytes counted, %d reported upstream, %d still held by the senders 15 s after traffic stopped and after waking them", v.droppedB, rep, pend), extra)
		default:
			v.viol(c31KeyDropRep, fmt.Sprintf("the harness saw %d bytes refused (both buffers full) in %d packets; %d bytes were reported upstream in %d write_err frames and the senders hold %d more: %d dropped bytes were never reported and never will be (no write error, no connection lost)",
				v.droppedB, v.nDropped, rep, v.reportFrames.Load(), pend, v.droppedB-rep-pend), extra)
		}
	}
}

// senderConns groups the accepted connections by the sender whose address pool contains the
// listener's address, ordered by accept time.
func (v *c31Env) senderConns() [][]*c31Conn {
	var out [][]*c31Conn
	for _, s := range []*tcpSender{v.e.pool.primary, v.e.pool.secondary} {
		s.poolMu.Lock()
		addrs := append([]string(nil), s.pool.addrs...)
		s.poolMu.Unlock()
		var cs []*c31Conn
		for _, u := range v.ups {
			for _, a := range addrs {
				if a == u.addr {
					cs = append(cs, u.conns...)
					break
				}
			}
		}
		sort.Slice(cs, func(i, j int) bool { return cs[i].accepted.Before(cs[j].accepted) })
		out = append(out, cs)
	}
	return out
}

// ---------------------------------------------------------------- final oracle

func (v *c31Env) judge() {
	sc := v.sc
	stats := v.stats
	if sc.realHandler && time.Since(v.started) > 25*time.Second {
		v.statsSwapped = true // the handler's 30-s report loop may have swapped the counters while the scenario was idle
	}
	for _, u := range v.ups {
		u.close()
	}
	v.mu.Lock()
	defer v.mu.Unlock()
	wantHS := v.wantHS
	totalFrames, boundaries, gapBoundaries, partials, injected := 0, 0, 0, 0, 0
	var gapLens []int
	var ivs [][2]int // (lo, hi): acceptance positions strictly between the last frame of one connection and the first of the next
	// position of every accepted packet in acceptance order (single producer)
	pos := map[uint64]int{}
	var accSeq []uint64
	for _, id := range v.pushOrder {
		if p := v.pkts[id]; p.outcome == 1 || !v.single {
			pos[id] = len(accSeq)
			accSeq = append(accSeq, id)
		}
	}
	for ui, u := range v.ups {
		for _, c := range u.conns {
			where := fmt.Sprintf("upstream %d connection %d", ui, c.idx)
			if c.byUp {
				injected++
			}
			if len(c.hs) > 0 && !bytes.Equal(c.hs, wantHS[:len(c.hs)]) || len(c.hs) < len(wantHS) && len(c.frames) > 0 {
				v.viol(c31KeyHandshake, fmt.Sprintf("%s starts with %q, expected %q", where, c.hs, wantHS), nil)
			}
			for _, b := range c.bad {
				key := c31KeyBytes
				if c.foreign > 0 {
					key = c31KeyForeign
				}
				v.viol(key, where+": "+b, nil)
			}
			if c.tail > 0 {
				partials++
				if !c.byUp && stats.WriteErrors == 0 {
					v.viol(c31KeyPartial, fmt.Sprintf("%s ended with %d bytes of an incomplete frame although the balancer counted no write error and the upstream did not cut it", where, c.tail), nil)
				}
			}
			// order: strictly increasing per producer on one connection
			last := map[uint64]uint64{}
			seen := map[uint64]bool{}
			for _, f := range c.frames {
				totalFrames++
				p := v.pkts[f.id]
				if p == nil {
					v.viol(c31KeyForeign, fmt.Sprintf("%s carries packet %d that was never offered", where, f.id), nil)
					continue
				}
				if f.size != p.size {
					v.viol(c31KeyBytes, fmt.Sprintf("%s: packet %d arrived with %d bytes, offered with %d", where, f.id, f.size, p.size), nil)
				}
				if p.outcome == 2 {
					v.viol(c31KeyDropDeliv, fmt.Sprintf("%s carries packet %d that was counted as dropped", where, f.id), nil)
				}
				prod := f.id >> 32
				if l, ok := last[prod]; ok && f.id <= l && !seen[f.id] {
					v.viol(c31KeyOrder, fmt.Sprintf("%s: packet %d arrived after packet %d", where, f.id, l), map[string]any{"connection": where})
				}
				seen[f.id] = true
				last[prod] = max(last[prod], f.id)
				if lat := f.at.Sub(p.at); sc.faultFree {
					switch {
					case lat > c31DelayMax:
						v.r.Count("latency.over_15s."+sc.Kind, 1)
					case lat > c31SlowMin:
						v.r.Count("latency.slow_3s_to_15s."+sc.Kind, 1)
					case lat > time.Second:
						v.r.Count("latency.1s_to_3s", 1)
					default:
						v.r.Count("latency.up_to_1s", 1)
					}
				}
			}
		}
	}
	// connection boundaries per sender: a sender has one connection at a time and dials only the
	// addresses of its own pool (no DNS reshuffle and no stuck-reconnect in these scenarios), so the
	// connections accepted by the listeners of its pool, ordered by accept time, are its successive connections
	if v.single && sc.boundaryRules {
		for _, snd := range v.senderConns() {
			lastPos := -1 // acceptance position of the last frame this sender got through so far
			open := false // a boundary was passed and no frame has arrived after it yet
			for ci, c := range snd {
				if ci > 0 {
					boundaries++
					open = true
				}
				if len(c.frames) > 0 {
					first, ok := pos[c.frames[0].id]
					if ok && open {
						ivs = append(ivs, [2]int{lastPos, first})
					}
					open = false
					if l, ok := pos[c.frames[len(c.frames)-1].id]; ok && l > lastPos {
						lastPos = l
					}
				}
				if c.byUp && ci == len(snd)-1 {
					open = true // cut by the upstream and never replaced: whatever was written after the last frame is gone
				}
			}
			if open {
				ivs = append(ivs, [2]int{lastPos, len(accSeq)})
			}
		}
	}
	// exactly once
	dups := 0
	for id, n := range v.delivered {
		if n > 1 {
			dups++
			if dups <= 3 {
				v.viol(c31KeyDup, fmt.Sprintf("packet %d was forwarded %d times", id, n), nil)
			}
		}
	}
	lost := 0
	var firstLost uint64
	for _, id := range accSeq {
		if v.delivered[id] == 0 && v.pkts[id].outcome == 1 && !v.explained[id] {
			if lost == 0 {
				firstLost = id
			}
			lost++
		}
	}
	if !v.single {
		// several producers: per-packet outcomes are unknown, totals must agree
		f := stats.ForwardedPackets
		if uint64(len(v.delivered)) != f && !v.statsSwapped {
			v.viol(c31KeyLoss, fmt.Sprintf("%d packets counted as forwarded, %d distinct packets arrived upstream", f, len(v.delivered)), nil)
		}
		if f+stats.DroppedPackets != uint64(len(v.pushOrder)) && !v.statsSwapped {
			v.viol(c31KeyAccount, fmt.Sprintf("offered %d, forwarded %d + dropped %d", len(v.pushOrder), f, stats.DroppedPackets), nil)
		}
	} else {
		if !v.statsSwapped && v.nUnknown == 0 && (stats.ForwardedPackets != uint64(v.nAccepted) || stats.DroppedPackets != uint64(v.nDropped)) {
			v.viol(c31KeyStats, fmt.Sprintf("Stats() reports forwarded %d dropped %d, per-packet outcomes were %d and %d", stats.ForwardedPackets, stats.DroppedPackets, v.nAccepted, v.nDropped), nil)
		}
		if v.statsSwapped {
			v.r.NotJudged("stats_totals_not_compared_report_loop_swapped_counters", 1)
		}
		faults := stats.WriteErrors > 0 || injected > 0
		if lost > 0 && !faults {
			// (packets stuck behind the timer were already released by quiesce; what is missing now is lost)
			v.viol(c31KeyLoss, fmt.Sprintf("%d accepted packet(s) (first %d) never arrived upstream although no connection failed and no write error was counted", lost, firstLost), map[string]any{"lost": lost})
		}
		if faults {
			v.r.Count("fault.packets_lost_at_connection_boundaries", int64(lost))
			if sc.boundaryRules {
				if uint64(boundaries) > stats.WriteErrors+stats.ReconnectErrors {
					v.viol(c31KeyBoundary, fmt.Sprintf("%d connection boundaries but only %d write errors and %d reconnect errors were counted", boundaries, stats.WriteErrors, stats.ReconnectErrors), nil)
				}
				// every lost packet must lie between the last frame of one connection and the first
				// frame of the next connection of some sender (which sender took a packet is not observable)
				unexplained := 0
				var firstU uint64
				perIv := make([]int, len(ivs))
				for _, id := range accSeq {
					if v.delivered[id] != 0 || v.pkts[id].outcome != 1 || v.explained[id] {
						continue
					}
					ok := false
					for k, iv := range ivs {
						if p := pos[id]; p > iv[0] && p < iv[1] {
							ok = true
							perIv[k]++
							break
						}
					}
					if !ok {
						if unexplained == 0 {
							firstU = id
						}
						unexplained++
					}
				}
				for _, n := range perIv {
					if n > 0 {
						gapBoundaries++
						gapLens = append(gapLens, n)
					}
				}
				if unexplained > 0 {
					v.viol(c31KeyGapInConn, fmt.Sprintf("%d accepted packet(s) (first %d) are missing although they do not lie between the last frame of one connection and the first frame of the next one", unexplained, firstU), map[string]any{"boundary_intervals": ivs})
				}
			}
		}
	}
	if v.single && stats.WriteErrors == 0 && injected == 0 && v.nUnknown == 0 {
		if rep, pend := v.reported.Load(), v.pendingReport(); rep+pend > v.droppedB {
			v.viol(c31KeyDropMore, fmt.Sprintf("%d bytes were refused, yet %d bytes were reported upstream and %d more are held for the next report", v.droppedB, rep, pend), nil)
		} else if rep+pend == v.droppedB && v.droppedB > 0 {
			v.r.Count("drops.scenarios_with_exact_report_total", 1)
		}
	}
	v.r.Count("drops.report_frames", v.reportFrames.Load())
	v.r.Count("packets.offered", int64(len(v.pushOrder)))
	v.r.Count("packets.accepted_known", int64(v.nAccepted))
	v.r.Count("packets.dropped", int64(v.nDropped))
	v.r.Count("frames.verified_byte_for_byte", int64(totalFrames))
	v.r.Count("connections.boundaries", int64(boundaries))
	v.r.Count("connections.boundaries_with_gap", int64(gapBoundaries))
	v.r.Count("connections.cut_by_upstream", int64(injected))
	v.r.Count("connections.partial_tail_frames", int64(partials))
	v.r.Count("egress.write_errors", int64(stats.WriteErrors))
	v.r.Count("egress.reconnect_errors", int64(stats.ReconnectErrors))
	v.r.Count("drops.bytes_dropped", v.droppedB)
	v.r.Count("drops.bytes_reported_upstream", v.reported.Load())
	for _, g := range gapLens {
		v.r.MaxCounter("connections.max_gap_len_recorded_not_judged", int64(g))
	}
	if v.empties > 0 {
		v.r.NotJudged("empty_packet_ignored_by_handler", int64(v.empties))
	}
}

// ---------------------------------------------------------------- scenario runner

func c31RunScenario(r *verifkit.Run, sc *c31Scenario) {
	defer func() {
		if p := recover(); p != nil {
			r.Violation("C31/panic", fmt.Sprintf("scenario %s panicked: %v", sc.Kind, p), map[string]any{"scenario": sc, "stack": string(debug.Stack())})
		}
	}()
	v := &c31Env{r: r, sc: sc, scn: uint32(sc.Index + 1), pkts: map[uint64]*c31Pkt{}, delivered: map[uint64]int{}, single: sc.producers <= 1}
	v.hostTag = fmt.Sprintf("c31-host-%d", sc.Index)
	v.wantHS = append(append([]byte(receiver.TCPPrefix), receiver.TCPMagicV2Balancer), binary.LittleEndian.AppendUint32(nil, uint32(len(v.hostTag)))...)
	v.wantHS = append(v.wantHS, v.hostTag...)
	v.explained = map[uint64]bool{}
	v.block = c31Block(v.scn)
	var addrs []string
	var reserved []int
	for i := 0; i < sc.nAddr; i++ {
		if sc.lateStart {
			fd, a, err := c31Reserve() // bound, not listening: the balancer's dials are refused for now
			if err != nil {
				r.Inconclusive("C31: cannot reserve a port: " + err.Error())
				return
			}
			reserved = append(reserved, fd)
			addrs = append(addrs, a)
			continue
		}
		u, err := c31Listen(v, "127.0.0.1:0", sc.closeAfter, sc.stall)
		if err != nil {
			r.Inconclusive("C31: cannot listen: " + err.Error())
			return
		}
		addrs = append(addrs, u.addr)
		v.ups = append(v.ups, u)
	}
	cfg := sc.cfg
	cfg.Network = "tcp"
	cfg.Address = addrs[0]
	for _, a := range addrs[1:] {
		cfg.Address += "," + a
	}
	cfg.HostTag = v.hostTag
	v.started = time.Now()
	v.e = NewEgress(cfg) // sleeps 2 s ("time to connect")
	if sc.realHandler {
		v.h = newHandler(v.e)
	} else {
		// identical to newHandler except for the report interval: its loop calls Stats(), which swaps the counters to zero
		v.h = &handler{egress: v.e, reportInterval: time.Hour, pkt: make([]byte, pktHeadLen, pktFrameMax), stop: make(chan struct{})}
		go v.h.reportLoop()
	}
	v.mu.Lock()
	v.lastPush = time.Now()
	v.mu.Unlock()
	sc.run(v)
	if sc.lateStart {
		ok := true
		for _, fd := range reserved {
			u, err := c31ListenFD(v, fd)
			if err != nil {
				ok = false
				continue
			}
			v.ups = append(v.ups, u)
		}
		if !ok {
			r.Inconclusive("C31: listen on a reserved port failed")
			v.h.Close()
			_ = v.e.Close()
			for _, u := range v.ups {
				u.close()
			}
			return
		}
		v.noteAccept() // the delay bound starts when the upstream becomes reachable
	}
	v.quiesce()
	// shutdown: whatever is buffered at Close is discarded by design (not judged)
	if left := len(v.stuckNow()); left > 0 {
		r.NotJudged("packets_still_owed_at_shutdown_already_reported_by_the_delay_clause", int64(left))
	}
	for _, u := range v.ups {
		u.stalled.Store(false)
		u.rateBps.Store(0)
		u.throttleUs.Store(0)
	}
	v.stats = v.e.Stats() // before handler.Close(), which calls Stats() itself (swap to zero)
	v.h.Close()
	_ = v.e.Close()
	v.judge()
	v.mu.Lock()
	nDel := len(v.delivered)
	nontrivial := nDel > 0
	switch sc.Kind {
	case "overflow-while-reporting", "report-over-slow-connection":
		nontrivial = nontrivial && v.nDropped > 0 && v.reportFrames.Load() >= 2
	case "stall-overflow", "single-address-overflow":
		nontrivial = nontrivial && v.nDropped > 0
	case "stuck-primary-reconnect":
		nontrivial = nontrivial && !v.noFailover
	case "upstream-hang-failover":
		nontrivial = nontrivial && v.nDropped > 0
	case "upstream-close":
		cut := 0
		for _, u := range v.ups {
			for _, c := range u.conns {
				if c.byUp {
					cut++
				}
			}
		}
		nontrivial = nontrivial && cut > 0
	}
	v.mu.Unlock()
	{
		var firstPush, lastPush, firstArr, lastArr time.Time
		v.mu.Lock()
		for _, id := range v.pushOrder {
			p := v.pkts[id]
			if firstPush.IsZero() || p.at.Before(firstPush) {
				firstPush = p.at
			}
			if p.at.After(lastPush) {
				lastPush = p.at
			}
		}
		v.mu.Unlock()
		for _, u := range v.ups {
			for _, c := range u.conns {
				for _, f := range c.frames {
					if firstArr.IsZero() || f.at.Before(firstArr) {
						firstArr = f.at
					}
					if f.at.After(lastArr) {
						lastArr = f.at
					}
				}
			}
		}
		rel := func(t time.Time) string { return fmt.Sprintf("%+.2fs", t.Sub(v.started).Seconds()) }
		perUp := ""
		for ui, u := range v.ups {
			nf, nr := 0, 0
			for _, c := range u.conns {
				nf += len(c.frames)
				nr += len(c.reports)
			}
			perUp += fmt.Sprintf(" up%d:conns=%d,frames=%d,reports=%d", ui, len(u.conns), nf, nr)
		}
		defer func() { r.T.Logf("C31 scenario %d per upstream:%s", sc.Index, perUp) }()
		r.T.Logf("C31 scenario %d %s (%s): pushes %s..%s, arrivals %s..%s, end %s, offered %d arrived %d dropped %d write_err %d", sc.Index, sc.Kind, sc.Params,
			rel(firstPush), rel(lastPush), rel(firstArr), rel(lastArr), rel(time.Now()), len(v.pushOrder), nDel, v.nDropped, v.stats.WriteErrors)
	}
	r.Case(nontrivial, fmt.Sprintf("%s;%s", sc.Kind, sc.Params))
	r.Shape(sc.Kind)
	r.Count("scenarios."+sc.Kind, 1)
	if r.WantSample() {
		r.Sample(map[string]any{"scenario": sc, "offered": len(v.pushOrder), "arrived_distinct": nDel, "dropped": v.nDropped})
	}
}

// ---------------------------------------------------------------- scenario generator

func c31Sizes(rnd *rand.Rand, class string) int {
	switch class {
	case "big":
		if rnd.IntN(40) == 0 {
			return pktBodyMax
		}
		return 2000 + rnd.IntN(7000)
	case "edge":
		return []int{c31HdrLen, c31HdrLen + 1, 4096, pktBodyMax - 1, pktBodyMax, 1400, 65000}[rnd.IntN(7)]
	default:
		switch p := rnd.IntN(20); {
		case p == 0:
			return 1000 + rnd.IntN(8000)
		default:
			return c31HdrLen + rnd.IntN(400)
		}
	}
}

func c31Scenarios(r *verifkit.Run) []*c31Scenario {
	rnd := r.Rand("scenarios")
	kinds := []string{"lone-after-idle", "pair", "small-burst", "burst-with-tail", "sparse-fast", "sparse-slow", "multi-producer", "edge-sizes", "upstream-close", "stall-overflow", "late-upstream", "burst-with-tail", "pair", "stall-overflow", "upstream-close", "upstream-hang-failover", "overflow-while-reporting", "report-over-slow-connection", "multi-producer", "single-address-overflow"}
	n := r.N(20, 240)
	var out []*c31Scenario
	for i := 0; i < n; i++ {
		kind := kinds[i%len(kinds)]
		sc := &c31Scenario{Kind: kind, Index: i, nAddr: 2, producers: 1, faultFree: true, seed: rnd.Uint64()}
		sc.realHandler = i%3 == 0
		if i%4 == 1 {
			sc.cfg.DNSRefreshInterval = time.Duration(50+rnd.IntN(400)) * time.Millisecond // address pools replaced while running
		}
		seed := sc.seed
		mk := func() (*rand.Rand, []byte) { return rand.New(rand.NewPCG(seed, 31)), make([]byte, pktBodyMax) }
		switch kind {
		case "lone-after-idle":
			idle := time.Duration(1200+rnd.IntN(1500)) * time.Millisecond
			sc.Params = fmt.Sprintf("idle=%v", idle)
			sc.run = func(v *c31Env) {
				pr, buf := mk()
				time.Sleep(idle)
				v.push(1, c31Sizes(pr, ""), buf)
			}
		case "pair":
			gap := time.Duration(50+rnd.IntN(700)) * time.Millisecond
			sc.Params = fmt.Sprintf("gap=%v", gap)
			sc.run = func(v *c31Env) {
				pr, buf := mk()
				v.push(1, c31Sizes(pr, ""), buf)
				time.Sleep(gap)
				v.push(2, c31Sizes(pr, ""), buf)
			}
		case "small-burst":
			k := 2 + rnd.IntN(bufferLen*20/100-2)
			sc.Params = fmt.Sprintf("k=%d", k)
			sc.run = func(v *c31Env) {
				pr, buf := mk()
				for i := 1; i <= k; i++ {
					v.push(uint64(i), c31Sizes(pr, ""), buf)
				}
			}
		case "burst-with-tail":
			k := (1+rnd.IntN(20))*(bufferLen*20/100) + 1 + rnd.IntN(bufferLen*20/100-1)
			sc.Params = fmt.Sprintf("k=%d", k)
			sc.run = func(v *c31Env) {
				pr, buf := mk()
				for i := 1; i <= k; i++ {
					v.push(uint64(i), c31Sizes(pr, ""), buf)
					if i%50 == 0 {
						time.Sleep(time.Millisecond)
					}
				}
			}
		case "sparse-fast":
			k, period := 5+rnd.IntN(8), time.Duration(150+rnd.IntN(550))*time.Millisecond
			sc.Params = fmt.Sprintf("k=%d period=%v", k, period)
			sc.run = func(v *c31Env) {
				pr, buf := mk()
				for i := 1; i <= k; i++ {
					v.push(uint64(i), c31Sizes(pr, ""), buf)
					if i < k {
						time.Sleep(period)
					}
				}
			}
		case "sparse-slow":
			k, period := 3+rnd.IntN(2), time.Duration(1300+rnd.IntN(500))*time.Millisecond
			sc.Params = fmt.Sprintf("k=%d period=%v", k, period)
			sc.run = func(v *c31Env) {
				pr, buf := mk()
				for i := 1; i <= k; i++ {
					v.push(uint64(i), c31Sizes(pr, ""), buf)
					if i < k {
						time.Sleep(period)
					}
				}
			}
		case "multi-producer":
			np, per := 2+rnd.IntN(4), 200+rnd.IntN(900)
			sc.producers = np
			sc.realHandler = false
			sc.Params = fmt.Sprintf("producers=%d each=%d", np, per)
			sc.run = func(v *c31Env) {
				var wg sync.WaitGroup
				for p := 0; p < np; p++ {
					wg.Add(1)
					go func(p int) {
						defer wg.Done()
						pr := rand.New(rand.NewPCG(seed, uint64(p)))
						buf := make([]byte, pktBodyMax)
						for i := 1; i <= per; i++ {
							v.push(uint64(p+1)<<32|uint64(i), c31Sizes(pr, ""), buf)
							if i%64 == 0 {
								time.Sleep(time.Millisecond) // keep below the buffer capacity: drops are another scenario
							}
						}
					}(p)
				}
				wg.Wait()
			}
		case "edge-sizes":
			k := 60 + rnd.IntN(100)
			sc.Params = fmt.Sprintf("k=%d", k)
			sc.run = func(v *c31Env) {
				pr, buf := mk()
				for i := 1; i <= k; i++ {
					if i%17 == 0 {
						_ = v.h.HandleMetricsBatchRaw(nil) // empty packet: ignored by the handler
						v.empties++
					}
					v.push(uint64(i), c31Sizes(pr, "edge"), buf)
					if i%20 == 0 {
						time.Sleep(2 * time.Millisecond)
					}
				}
			}
		case "upstream-hang-failover":
			// each sender gets two upstream addresses.  The upstreams that hold the live connections stop
			// reading for good (a hung peer): the write timeout must end the blocked write so that the
			// sender reconnects to the next address of its pool, where everything is healthy.
			// Driven by state: push until drops show that both senders are blocked (or a write error is
			// already counted); the delay clause then judges what is still buffered.
			sc.faultFree = false
			sc.boundaryRules = true
			sc.nAddr = 4
			sc.cfg.DNSRefreshInterval = time.Hour // a refresh reshuffles which sender dials which listener
			sc.cfg.WriteTimeout = 6 * time.Second
			sc.cfg.ReconnectDelay = 100 * time.Millisecond
			sc.cfg.StuckReconDelay = time.Hour
			sc.wantDrops = 3 + rnd.IntN(10)
			warm := 50 + rnd.IntN(100)
			sc.Params = fmt.Sprintf("write_timeout=6s warm=%d then hang until drops>=%d", warm, sc.wantDrops)
			sc.run = func(v *c31Env) {
				pr, buf := mk()
				id := uint64(0)
				for i := 0; i < warm; i++ {
					id++
					v.push(id, c31Sizes(pr, ""), buf)
					if i%10 == 0 {
						time.Sleep(2 * time.Millisecond)
					}
				}
				// let the warm-up through (a tail below the batch threshold may stay behind: that is 7-j, judged at the end)
				for t0 := time.Now(); len(v.undelivered()) > bufferLen*20/100 && time.Since(t0) < 30*time.Second; {
					time.Sleep(20 * time.Millisecond)
				}
				hung := 0
				for _, u := range v.ups {
					u.mu.Lock()
					live := 0
					for _, c := range u.conns {
						if !c.ended {
							live++
						}
					}
					u.mu.Unlock()
					if live > 0 {
						u.stalled.Store(true)
						hung++
					}
				}
				v.r.Count("hang.listeners_hung", int64(hung))
				for n := 0; n < 4000; n++ {
					id++
					v.push(id, c31Sizes(pr, "big"), buf)
					v.mu.Lock()
					d := v.nDropped
					v.mu.Unlock()
					if d >= sc.wantDrops || n >= 800 && v.e.stats.writeErrors.Load() > 0 {
						break
					}
				}
			}
		case "report-over-slow-connection":
			// component-level: the real reportWouldBlockIfAny of the primary sender is driven with a
			// connection whose Write is slow, while a real producer keeps having packets refused by the
			// real, overflowing buffers (both upstreams stalled, so the senders' own loops sit in a
			// blocked write and do not report meanwhile).  With real sockets the 100-byte report never
			// blocks (the kernel appends it to the unsent tail), so this window is not reachable there.
			// Afterwards the upstreams read again and the real loops report the rest.
			sc.faultFree = false
			sc.stall = true
			sc.cfg.WriteTimeout = 10 * time.Minute
			sc.cfg.StuckReconDelay = time.Hour
			calls := 8 + rnd.IntN(20)
			sc.Params = fmt.Sprintf("report_calls=%d", calls)
			sc.run = func(v *c31Env) {
				var stop atomic.Bool
				var wg sync.WaitGroup
				wg.Add(1)
				go func() {
					defer wg.Done()
					pr, buf := mk()
					for i := uint64(1); !stop.Load() && i < 400000; i++ {
						v.push(i, 100+pr.IntN(2000), buf)
					}
				}()
				dropped := func() int { v.mu.Lock(); defer v.mu.Unlock(); return v.nDropped }
				for t0 := time.Now(); dropped() < 200 && time.Since(t0) < 120*time.Second; {
					time.Sleep(time.Millisecond)
				}
				snd := v.e.pool.primary
				stub := &c31SlowConn{v: v}
				m := snd.getWriteErrM()
				scratch := make([]byte, 0, pktHeadLen)
				for k := 0; k < calls && dropped() >= 200; k++ {
					scratch = snd.reportWouldBlockIfAny(stub, m, scratch)
					d0 := dropped()
					for t0 := time.Now(); dropped() < d0+10 && time.Since(t0) < 5*time.Second; {
						time.Sleep(50 * time.Microsecond)
					}
				}
				stop.Store(true)
				wg.Wait()
				v.r.Count("slowconn.report_frames", int64(stub.frames))
				if stub.bad > 0 {
					v.viol(c31KeyForeign, fmt.Sprintf("reportWouldBlockIfAny wrote %d frame(s) that are not a well-formed write_err report", stub.bad), nil)
				}
				for _, u := range v.ups {
					u.stalled.Store(false)
				}
			}
		case "overflow-while-reporting":
			// slow upstreams (2 KB per read, then a pause): every write, the write of a write_err report
			// included, takes long.  Several producers keep both buffers overflowing, so packets are being
			// refused while reports are in flight.  Driven by state: until enough report frames have
			// arrived upstream; then the upstreams read at full speed, everything drains, and the report
			// total must equal the refused bytes exactly.
			sc.faultFree = false
			sc.cfg.WriteTimeout = 10 * time.Minute
			sc.cfg.StuckReconDelay = time.Hour
			sc.stall = true // small receive buffers; un-stalled right away, throttled instead
			np := 2 + rnd.IntN(3)
			pause := 100 + rnd.IntN(400)
			wantReports := int64(40 + rnd.IntN(20))
			base := []int{2200, 1000, 4000, 300}[(i/len(kinds))%4]
			if os.Getenv("VERIF_C31_BASE") != "" { // experiments only
				base, _ = strconv.Atoi(os.Getenv("VERIF_C31_BASE"))
			}
			sc.Params = fmt.Sprintf("producers=%d read_pause=%dus reports>=%d size~%d", np, pause, wantReports, base)
			sc.run = func(v *c31Env) {
				for _, u := range v.ups {
					u.throttleUs.Store(int64(pause))
					u.stalled.Store(false)
				}
				v.r.Count("overflow.balancer_sockets_with_minimal_send_buffer", int64(v.shrinkSendBuffers()))
				var stop atomic.Bool
				var total atomic.Int64
				var wg sync.WaitGroup
				for p := 0; p < np; p++ {
					wg.Add(1)
					go func(p int) {
						defer wg.Done()
						pr := rand.New(rand.NewPCG(seed, uint64(p)))
						buf := make([]byte, pktBodyMax)
						for i := uint64(1); !stop.Load(); i++ {
							size := base + pr.IntN(base/5)
							v.pushMu.Lock()
							v.push(uint64(p+1)<<32|i, size, buf)
							v.pushMu.Unlock()
							if total.Add(1) >= 200000 {
								stop.Store(true)
							}
						}
					}(p)
				}
				for t0 := time.Now(); !stop.Load() && time.Since(t0) < 120*time.Second; time.Sleep(5 * time.Millisecond) {
					v.mu.Lock()
					d := v.nDropped
					v.mu.Unlock()
					if v.reportFrames.Load() >= wantReports && d >= 2000 {
						break
					}
				}
				stop.Store(true)
				wg.Wait()
				for _, u := range v.ups {
					u.throttleUs.Store(0)
				}
			}
		case "upstream-close":
			sc.faultFree = false
			sc.boundaryRules = true
			sc.cfg.DNSRefreshInterval = time.Hour // a refresh reshuffles which sender dials which listener
			sc.cfg.ReconnectDelay = 100 * time.Millisecond
			sc.cfg.StuckReconDelay = time.Hour
			cuts := 2 + rnd.IntN(3)
			for c := 0; c < cuts; c++ {
				sc.closeAfter = append(sc.closeAfter, 20000+rnd.IntN(400000))
			}
			k := 6000 + rnd.IntN(6000)
			sc.Params = fmt.Sprintf("k=%d cut_after_bytes=%v", k, sc.closeAfter)
			sc.run = func(v *c31Env) {
				pr, buf := mk()
				for i := 1; i <= k; i++ {
					v.push(uint64(i), c31Sizes(pr, ""), buf)
					if i%40 == 0 {
						time.Sleep(2 * time.Millisecond)
					}
				}
			}
		case "stall-overflow", "single-address-overflow":
			sc.faultFree = false
			sc.nAddr = 2
			if kind == "single-address-overflow" {
				sc.nAddr = 1
			}
			sc.stall = true
			sc.cfg.WriteTimeout = 10 * time.Minute
			if rnd.IntN(2) == 0 {
				sc.cfg.StuckReconDelay = 100 * time.Millisecond
			}
			sc.wantDrops = 5 + rnd.IntN(40)
			after := 10 + rnd.IntN(100)
			sc.Params = fmt.Sprintf("drops>=%d then %d more stuck_recon=%v", sc.wantDrops, after, sc.cfg.StuckReconDelay)
			sc.run = func(v *c31Env) {
				pr, buf := mk()
				id := uint64(0)
				for limit := 0; limit < 6000; limit++ {
					id++
					v.push(id, c31Sizes(pr, "big"), buf)
					v.mu.Lock()
					d := v.nDropped
					v.mu.Unlock()
					if d >= sc.wantDrops {
						break
					}
				}
				for _, u := range v.ups {
					u.stalled.Store(false)
				}
				for i := 0; i < after; i++ {
					id++
					v.push(id, c31Sizes(pr, ""), buf)
					if i%10 == 0 {
						time.Sleep(3 * time.Millisecond)
					}
				}
			}
		case "late-upstream":
			sc.faultFree = false
			sc.lateStart = true
			sc.cfg.ReconnectDelay = 200 * time.Millisecond
			k := 1 + rnd.IntN(bufferLen-1)
			sc.Params = fmt.Sprintf("k=%d", k)
			sc.run = func(v *c31Env) {
				pr, buf := mk()
				for i := 1; i <= k; i++ {
					v.push(uint64(i), c31Sizes(pr, ""), buf)
				}
				time.Sleep(time.Duration(300+pr.IntN(700)) * time.Millisecond)
			}
		}
		out = append(out, sc)
	}
	return out
}

func TestVerifC31(t *testing.T) {
	r := verifkit.Start(t, "C31", "balancer")
	defer r.Finish()
	r.SetRule("scenarios over the real Egress + handler and local TCP listeners: arrival patterns (one packet after idle, a pair, bursts below / above the 20% batch threshold with a tail, sparse fast and slow, several producers, frame sizes at the limits) and faults (upstream cuts connections after a byte count, upstream stalls until both buffers overflow, upstream comes up late, a single upstream address with overflow). Parameters are drawn from the seed. Non-trivial = at least one packet arrived upstream and the scenario's feature occurred (drops seen / a connection cut). Distinct = kind plus parameters.")
	r.Assume("the two wall-clock bounds of DESIGN C31: still buffered 15 s after the last packet with the upstream connected => violation, 3-15 s => recorded as slow")
	r.Assume("bytes written into a connection that the peer then closes cannot be observed: in fault scenarios losses are allowed only between the last frame of one connection and the first of the next, gap lengths are recorded, not judged")
	_ = receiver.TCPPrefix
	_ = io.EOF
	scs := c31Scenarios(r)
	if only := os.Getenv("VERIF_C31_ONLY"); only != "" { // experiments only
		var keep []*c31Scenario
		for _, sc := range scs {
			if sc.Kind == only {
				keep = append(keep, sc)
			}
		}
		scs = keep
	}
	conc := 24
	if x, err := strconv.Atoi(os.Getenv("VERIF_C31_CONC")); err == nil && x > 0 {
		conc = x // experiments only; the scenario list does not depend on it
	}
	sem := make(chan struct{}, conc)
	var wg sync.WaitGroup
	for _, sc := range scs {
		wg.Add(1)
		sem <- struct{}{}
		go func(sc *c31Scenario) {
			defer wg.Done()
			defer func() { <-sem }()
			c31RunScenario(r, sc)
		}(sc)
	}
	wg.Wait()
	sort.Slice(scs, func(i, j int) bool { return scs[i].Index < scs[j].Index })
}
