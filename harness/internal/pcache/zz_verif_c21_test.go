//go:build verif

package pcache

// C21 (mapping cache half) — the persistent mapping cache never serves wrong data, stays
// within its size, keeps its accounting exact and reloads what it saved.
//
// Phase 1: sequential operation histories with a full-state monitor (the in-package test
// reads the real map and counters under the cache's own lock after every call).
// Phase 2: concurrent getters against one writer under the race detector.

import (
	"encoding/json"
	"fmt"
	"math/rand/v2"
	"os"
	"path/filepath"
	"runtime/debug"
	"strings"
	"sync"
	"sync/atomic"
	"testing"

	"github.com/VKCOM/statshouse/internal/data_model"
	"github.com/VKCOM/statshouse/internal/format"
	"github.com/VKCOM/statshouse/internal/zzverif/verifkit"
)

type c21Snap struct {
	m       map[string]cacheValue
	sumSize int64
	sumTS   int64
}

func c21Snapshot(c *MappingsCache) c21Snap {
	c.mu.RLock()
	defer c.mu.RUnlock()
	s := c21Snap{m: make(map[string]cacheValue, len(c.cache)), sumSize: c.sumSize, sumTS: c.sumTS}
	for k, v := range c.cache {
		s.m[k] = v
	}
	return s
}

func (s c21Snap) recompute() (size, ts int64) {
	for k, v := range s.m {
		size += elementSizeMem(k)
		ts += int64(v.accessTS)
	}
	return
}

// the value every string maps to in this harness: a pure function of the string, never a marker
func c21Val(s string) int32 {
	h := uint32(2166136261)
	for i := 0; i < len(s); i++ {
		h = (h ^ uint32(s[i])) * 16777619
	}
	v := int32(h&0x3fffffff) + 1
	return v
}

type c21Hist struct {
	r     *verifkit.Run
	w     *verifkit.Worker
	rnd   *rand.Rand
	index int
	ops   []string
	abs   strings.Builder
	c     *MappingsCache
	buf   *[]byte
	fp    *os.File
	dir   string
	path  string
	files bool
	now   uint32
	// last effective save
	saved      map[string]cacheValue
	savedValid bool
	universe   []string
	evictions  int
	reloads    int // generation of the backing file
	restarts   int
	ttlRemoved int
}

func (h *c21Hist) logOp(f string, a ...any) {
	h.ops = append(h.ops, fmt.Sprintf(f, a...))
}

func (h *c21Hist) bad(key, what string, extra map[string]any) {
	ops := h.ops
	if len(ops) > 300 {
		ops = ops[len(ops)-300:]
	}
	w := map[string]any{"hist": h.index, "ops": ops}
	for k, v := range extra {
		w[k] = v
	}
	h.r.Violation("C21/"+key, what, w)
}

func (h *c21Hist) checkAccounting(where string, s c21Snap) {
	size, ts := s.recompute()
	h.w.Count("accounting_checks", 1)
	if size != s.sumSize {
		h.bad("cache/sumSize-inexact", fmt.Sprintf("after %s: sumSize %d, recomputed from the map %d", where, s.sumSize, size), nil)
	}
	if ts != s.sumTS {
		h.bad("cache/sumTS-inexact", fmt.Sprintf("after %s: sumTS %d, recomputed from the map %d", where, s.sumTS, ts), nil)
	}
	for k, v := range s.m {
		if v.value == 0 || v.value == format.TagValueIDMappingFlood || v.value == format.TagValueIDDoesNotExist || k == "" {
			h.bad("cache/marker-stored", fmt.Sprintf("after %s: entry %q -> %d is a marker value or empty key", where, k, v.value), nil)
		}
	}
}

func (h *c21Hist) open(image []byte, maxSize int64, ttl int) error {
	var err error
	if h.files {
		if h.fp != nil {
			_ = h.fp.Close()
		}
		h.reloads++
		h.path = filepath.Join(h.dir, fmt.Sprintf("m-%d.cache", h.reloads))
		if werr := os.WriteFile(h.path, image, 0o644); werr != nil {
			panic(werr)
		}
		fp, oerr := os.OpenFile(h.path, os.O_CREATE|os.O_RDWR, 0o666)
		if oerr != nil {
			panic(oerr)
		}
		h.fp = fp
		h.c, err = LoadMappingsCacheFile(fp, maxSize, ttl)
	} else {
		b := append([]byte(nil), image...)
		h.buf = &b
		h.c, err = LoadMappingsCacheSlice(h.buf, maxSize)
		h.c.SetSizeTTL(maxSize, ttl)
	}
	h.c.testMode = h.rnd.IntN(2) == 0
	h.c.deterministic = h.rnd.IntN(2) == 0
	return err
}

func (h *c21Hist) image() []byte {
	if h.fp != nil {
		b, err := os.ReadFile(h.path)
		if err != nil {
			panic(err)
		}
		return b
	}
	return append([]byte(nil), *h.buf...)
}

func (h *c21Hist) randStr() string {
	return h.universe[h.rnd.IntN(len(h.universe))]
}

func (h *c21Hist) run() {
	rnd := h.rnd
	defer func() {
		if h.fp != nil {
			_ = h.fp.Close()
		}
		if h.dir != "" {
			_ = os.RemoveAll(h.dir)
		}
	}()
	defer func() {
		if p := recover(); p != nil {
			h.bad("cache/panic", fmt.Sprintf("panic: %v", p), map[string]any{"stack": string(debug.Stack())})
		}
	}()
	if h.files {
		h.dir = h.r.MkTmp("c21-")
	}
	// universe of strings: short and long, so that element sizes differ
	nu := 20 + rnd.IntN(120)
	for i := 0; i < nu; i++ {
		l := 1 + rnd.IntN(12)
		if rnd.IntN(5) == 0 {
			l = 40 + rnd.IntN(90)
		}
		h.universe = append(h.universe, fmt.Sprintf("s%d_%s", i, strings.Repeat(string(rune('a'+i%26)), l)))
	}
	maxSize := int64(150 + rnd.IntN(4000))
	ttl := 0
	if rnd.IntN(2) == 0 {
		ttl = 1 + rnd.IntN(50)
	}
	h.now = 1_000_000 + uint32(rnd.IntN(1000))
	if err := h.open(nil, maxSize, ttl); err != nil {
		h.bad("cache/load-empty-error", err.Error(), nil)
	}
	h.abs.WriteString(fmt.Sprintf("u%d m%d t%d;", nu, maxSize, ttl))
	steps := 30 + rnd.IntN(90)
	for step := 0; step < steps; step++ {
		if rnd.IntN(3) == 0 {
			h.now += uint32(rnd.IntN(8))
		}
		before := c21Snapshot(h.c)
		switch x := rnd.IntN(100); {
		case x < 40: // AddValues, batches never repeat a string (as every caller builds them from a map)
			n := 1 + rnd.IntN(12)
			seen := map[string]bool{}
			var batch []MappingPair
			for i := 0; i < n; i++ {
				s := h.randStr()
				if seen[s] {
					continue
				}
				seen[s] = true
				p := MappingPair{Str: s, Value: c21Val(s)}
				switch rnd.IntN(30) { // hostile pairs the cache must refuse
				case 0:
					p.Value = 0
				case 1:
					p.Value = format.TagValueIDMappingFlood
				case 2:
					p.Value = format.TagValueIDDoesNotExist
				case 3:
					if !seen[""] {
						seen[""] = true
						batch = append(batch, MappingPair{Str: "", Value: 77})
					}
				}
				batch = append(batch, p)
			}
			want := map[string]int32{}
			for _, p := range batch {
				want[p.Str] = p.Value
			}
			ts := h.now
			if rnd.IntN(6) == 0 { // a late batch carrying an older timestamp
				ts -= uint32(rnd.IntN(20))
			}
			h.logOp("AddValues now=%d %d pairs", ts, len(batch))
			h.abs.WriteString(fmt.Sprintf("A%d;", len(batch)))
			arg := append([]MappingPair(nil), batch...) // AddValues compacts the caller's slice in place
			h.c.AddValues(ts, arg)
			after := c21Snapshot(h.c)
			lim := h.c.maxSize.Load()
			if after.sumSize > lim && after.sumSize > before.sumSize {
				h.bad("cache/grew-beyond-max", fmt.Sprintf("AddValues: sumSize %d -> %d with maxSize %d", before.sumSize, after.sumSize, lim), nil)
			}
			for k, v := range after.m {
				if old, ok := before.m[k]; ok {
					if old != v {
						h.bad("cache/existing-entry-changed", fmt.Sprintf("AddValues changed existing %q from %+v to %+v", k, old, v), nil)
					}
					continue
				}
				wv, ok := want[k]
				if !ok {
					h.bad("cache/entry-from-nowhere", fmt.Sprintf("AddValues created %q -> %d which was not in the batch", k, v.value), nil)
				} else if wv != v.value {
					h.bad("cache/wrong-value-stored", fmt.Sprintf("AddValues stored %q -> %d, the batch said %d", k, v.value, wv), nil)
				}
				if v.accessTS != ts {
					h.r.NotJudged("new_entry_access_ts_not_now", 1)
				}
				h.w.Count("entries_added", 1)
			}
			ev := 0
			for k := range before.m {
				if _, ok := after.m[k]; !ok {
					ev++
				}
			}
			if ev > 0 {
				h.evictions += ev
				h.w.Count("evictions_by_size", int64(ev))
				var newSize int64
				for k, v := range want {
					if _, ok := before.m[k]; !ok && k != "" && v != 0 && v != -1 && v != -2 {
						newSize += elementSizeMem(k)
					}
				}
				if before.sumSize+newSize <= lim {
					h.r.NotJudged("evicted_although_everything_fits", 1)
				}
			}
			h.checkAccounting("AddValues", after)
		case x < 68: // GetValue / GetValueBytes
			s := h.randStr()
			if rnd.IntN(10) == 0 {
				s = "never_added_" + s
			}
			ts := h.now
			if rnd.IntN(4) == 0 {
				ts -= uint32(rnd.IntN(10))
			}
			var v int32
			var ok bool
			if rnd.IntN(2) == 0 {
				v, ok = h.c.GetValue(ts, s)
			} else {
				v, ok = h.c.GetValueBytes(ts, []byte(s))
			}
			h.logOp("GetValue ts=%d %q -> %d %v", ts, s, v, ok)
			h.abs.WriteString("G;")
			old, present := before.m[s]
			h.w.Count("gets", 1)
			if present {
				h.w.Count("gets_hit", 1)
			}
			if ok != present {
				h.bad("cache/get-presence-wrong", fmt.Sprintf("GetValue(%q) ok=%v but the map presence is %v", s, ok, present), nil)
			} else if ok && v != old.value {
				h.bad("cache/get-wrong-value", fmt.Sprintf("GetValue(%q) = %d, stored value %d", s, v, old.value), nil)
			}
			if ok && (v != c21Val(s) || v == 0 || v == -1 || v == -2) {
				h.bad("cache/get-wrong-value", fmt.Sprintf("GetValue(%q) = %d, the value added for it is %d", s, v, c21Val(s)), nil)
			}
			if !ok && v != 0 {
				h.r.NotJudged("miss_with_nonzero_value", 1)
			}
			after := c21Snapshot(h.c)
			if len(after.m) != len(before.m) {
				h.bad("cache/get-changed-contents", "GetValue added or removed entries", nil)
			}
			if present {
				if na := after.m[s].accessTS; na != max(old.accessTS, ts) {
					h.r.NotJudged("access_ts_not_max_of_old_and_get", 1)
				}
			}
			h.checkAccounting("GetValue", after)
		case x < 78: // RemoveByTTL
			maxCount := 1 + rnd.IntN(40)
			if rnd.IntN(2) == 0 {
				maxCount = 1 << 30
			}
			now := h.now + uint32(rnd.IntN(30))
			h.logOp("RemoveByTTL maxCount=%d now=%d", maxCount, now)
			h.abs.WriteString("T;")
			h.c.RemoveByTTL(maxCount, now)
			after := c21Snapshot(h.c)
			ttl := h.c.maxTTL.Load()
			for k, v := range before.m {
				if nv, ok := after.m[k]; ok {
					if nv != v {
						h.bad("cache/existing-entry-changed", fmt.Sprintf("RemoveByTTL changed %q", k), nil)
					}
					if maxCount >= len(before.m) && ttl > 0 && int64(v.accessTS)+ttl < int64(now) {
						h.r.NotJudged("ttl_expired_entry_survived_full_scan", 1)
					}
					continue
				}
				h.ttlRemoved++
				h.w.Count("evictions_by_ttl", 1)
				if !(ttl > 0 && int64(v.accessTS)+ttl < int64(now)) {
					h.r.NotJudged("ttl_removed_entry_not_expired", 1)
				}
			}
			if len(after.m) > len(before.m) || after.sumSize > before.sumSize {
				h.bad("cache/grew-beyond-max", "RemoveByTTL grew the cache", nil)
			}
			h.checkAccounting("RemoveByTTL", after)
		case x < 84: // SetSizeTTL
			ms := int64(100 + rnd.IntN(4000))
			if rnd.IntN(3) == 0 {
				ms = h.c.maxSize.Load() / 2
			}
			t := 0
			if rnd.IntN(2) == 0 {
				t = 1 + rnd.IntN(50)
			}
			h.logOp("SetSizeTTL %d %d", ms, t)
			h.abs.WriteString("Z;")
			h.c.SetSizeTTL(ms, t)
			h.checkAccounting("SetSizeTTL", c21Snapshot(h.c))
		case x < 95: // Save
			ok, err := h.c.Save()
			h.logOp("Save -> %v %v", ok, err)
			h.abs.WriteString("S;")
			if err != nil {
				h.bad("cache/save-error", err.Error(), nil)
			}
			if ok {
				h.saved, h.savedValid = before.m, true
				h.w.Count("save.effective", 1)
			} else {
				h.w.Count("save.noop", 1)
			}
		default: // restart from the saved image
			if rnd.IntN(2) == 0 {
				if ok, _ := h.c.Save(); ok {
					h.saved, h.savedValid = before.m, true
					h.w.Count("save.effective", 1)
				}
			}
			img := h.image()
			ms, t := h.c.maxSize.Load(), int(h.c.maxTTL.Load())
			err := h.open(img, ms, t)
			h.logOp("reload %d bytes err=%v", len(img), err)
			h.abs.WriteString("L;")
			h.restarts++
			if h.rnd.IntN(120) == 0 && len(img) <= 1200 { // every open allocates a 1 MiB scratch buffer: keep it affordable
				h.enumerateCuts(img)
			}
			h.w.Count("reload.intact", 1)
			got := c21Snapshot(h.c)
			if err != nil {
				h.bad("reload/intact-error", "loading an intact cache image failed: "+err.Error(), nil)
			}
			want := h.saved
			if !h.savedValid {
				want = map[string]cacheValue{}
			}
			if len(got.m) != len(want) {
				h.bad("reload/contents-differ", fmt.Sprintf("reload gave %d entries, the last effective Save held %d", len(got.m), len(want)), nil)
			} else {
				for k, v := range want {
					if g, ok := got.m[k]; !ok || g != v {
						h.bad("reload/contents-differ", fmt.Sprintf("reload: %q -> %+v (present %v), saved %+v", k, g, ok, v), nil)
						break
					}
				}
			}
			h.checkAccounting("reload", got)
			h.saved, h.savedValid = got.m, true // the file holds exactly this now
		}
	}
}

// enumerateCuts loads the saved image truncated at every offset: whatever loads must be
// saved entries with their saved values, and the accounting of the loaded cache is exact.
func (h *c21Hist) enumerateCuts(img []byte) {
	for o := 0; o < len(img); o++ {
		d := append([]byte(nil), img[:o]...)
		c2, err := LoadMappingsCacheSlice(&d, 1<<40)
		got := c21Snapshot(c2)
		h.w.Count("cut_offsets", 1)
		if err == nil && o != 0 && len(got.m) != len(h.saved) {
			h.w.Count("cut_offsets_loaded_clean", 1)
		}
		for s, v := range got.m {
			if sv, ok := h.saved[s]; !ok || sv != v {
				h.bad("reload/damaged-entry-served", fmt.Sprintf("image cut at %d of %d: loaded %q -> %+v, saved %+v (present %v)", o, len(img), s, v, sv, ok), nil)
				return
			}
		}
		if size, ts := got.recompute(); size != got.sumSize || ts != got.sumTS {
			h.bad("cache/sumSize-inexact", fmt.Sprintf("image cut at %d: accounting of the loaded cache is off", o), nil)
			return
		}
		h.w.CaseHash(o > 0, verifkit.Hash(fmt.Sprintf("cut %d %d", h.index, o)))
	}
}

// c21Damaged: a cache big enough to span several chunks, image truncated / bit-flipped:
// whatever loads must be entries that were saved, with their values.
func c21Damaged(r *verifkit.Run, w *verifkit.Worker, idx int, cuts int) {
	rnd := w.Rnd
	var buf []byte
	c, _ := LoadMappingsCacheSlice(&buf, 1<<40)
	n := 4500 + rnd.IntN(6000)
	var batch []MappingPair
	for i := 0; i < n; i++ {
		s := fmt.Sprintf("k%d_%s", i, strings.Repeat(string(rune('a'+i%26)), 60+rnd.IntN(68)))
		batch = append(batch, MappingPair{Str: s, Value: c21Val(s)})
		if len(batch) == 500 {
			c.AddValues(uint32(1000+i), batch)
			batch = nil
		}
	}
	c.AddValues(uint32(1000+n), batch)
	if ok, err := c.Save(); !ok || err != nil {
		r.Violation("C21/cache/save-error", fmt.Sprintf("Save of a %d-entry cache: ok=%v err=%v", n, ok, err), nil)
		return
	}
	saved := c21Snapshot(c)
	img := append([]byte(nil), buf...)
	w.Count("damaged.images", 1)
	if len(img) > data_model.ChunkSize/2 {
		w.Count("damaged.multi_chunk_images", 1)
	}
	for k := 0; k < cuts; k++ {
		d := append([]byte(nil), img...)
		kind := "truncate"
		pos := rnd.IntN(len(img))
		if k%2 == 1 {
			kind = "bitflip"
			d[pos] ^= 1 << uint(rnd.IntN(8))
		} else {
			d = d[:pos]
		}
		c2, err := LoadMappingsCacheSlice(&d, 1<<40)
		got := c21Snapshot(c2)
		w.Count("damaged."+kind, 1)
		if err == nil {
			w.Count("damaged.loaded_without_error", 1)
			if kind == "bitflip" { // stricter than the statement as long as nothing wrong is loaded
				r.NotJudged("cache_loaded_bitflipped_image_without_error", 1)
			}
		}
		if len(got.m) > 0 && len(got.m) < len(saved.m) {
			w.Count("damaged.nonempty_prefix_loaded", 1)
		}
		bad := false
		for s, v := range got.m {
			if sv, ok := saved.m[s]; !ok || sv != v {
				r.Violation("C21/reload/damaged-entry-served", fmt.Sprintf("%s at %d of %d: loaded %q -> %+v, saved %+v (present %v)", kind, pos, len(img), s, v, sv, ok), map[string]any{"case": idx})
				bad = true
				break
			}
		}
		size, ts := got.recompute()
		if !bad && (size != got.sumSize || ts != got.sumTS) {
			r.Violation("C21/cache/sumSize-inexact", fmt.Sprintf("after loading a damaged image: sumSize %d (recomputed %d) sumTS %d (recomputed %d)", got.sumSize, size, got.sumTS, ts), map[string]any{"case": idx})
		}
		w.Case(len(got.m) > 0 && len(got.m) < len(saved.m), fmt.Sprintf("dmg %d %s %d", idx, kind, pos))
	}
}

// c21Concurrent: getters race with one writer; every value a getter sees must be the value
// of that string; accounting must be exact once everything has stopped.
const c21HotKeys = 4

func c21Concurrent(r *verifkit.Run, round int, getters, opsPerGetter, writerOps int) {
	rnd := r.Rand(fmt.Sprintf("conc/%d", round))
	var buf []byte
	maxSize := int64(2000 + rnd.IntN(6000))
	c, _ := LoadMappingsCacheSlice(&buf, maxSize)
	c.SetSizeTTL(maxSize, 5+rnd.IntN(60))
	c.accessTSGran = 1 + rnd.IntN(3)
	// testMode turns on the cache's own consistency panics ("removing wrong item ..."): an
	// extra observation point that names the root cause when accounting drifts
	c.testMode = round%2 == 1
	universe := make([]string, 150)
	for i := range universe {
		universe[i] = fmt.Sprintf("c%d_%s", i, strings.Repeat("x", 1+i%40))
	}
	var now atomic.Uint32
	now.Store(2_000_000)
	hotBatch := func() []MappingPair {
		var b []MappingPair
		for _, s := range universe[:c21HotKeys] {
			b = append(b, MappingPair{Str: s, Value: c21Val(s)})
		}
		return b
	}
	c.AddValues(now.Load(), hotBatch())
	var wg sync.WaitGroup
	var wrong, hits, misses atomic.Int64
	var firstWrong atomic.Value
	start := make(chan struct{})
	for g := 0; g < getters; g++ {
		wg.Add(1)
		grnd := r.Rand(fmt.Sprintf("conc/%d/getter/%d", round, g))
		go func() {
			defer wg.Done()
			<-start
			for i := 0; i < opsPerGetter; i++ {
				// most lookups hammer a handful of hot keys (two lookups of the SAME key racing through
				// the RLock check / TryLock section is the window that matters for access-time
				// accounting), and the virtual clock advances every few calls so that the stored
				// access time is almost always older than the one of the lookup
				s := universe[grnd.IntN(len(universe))]
				if grnd.IntN(4) != 0 {
					s = universe[grnd.IntN(c21HotKeys)]
				}
				if i%3 == 0 {
					now.Add(1)
				}
				var v int32
				var ok bool
				ts := now.Load() + uint32(grnd.IntN(4)) // clocks of callers differ a little
				if grnd.IntN(2) == 0 {
					v, ok = c.GetValue(ts, s)
				} else {
					v, ok = c.GetValueBytes(ts, []byte(s))
				}
				if ok {
					hits.Add(1)
					if v != c21Val(s) {
						if wrong.Add(1) == 1 {
							firstWrong.Store(fmt.Sprintf("GetValue(%q) = %d, the value added for it is %d", s, v, c21Val(s)))
						}
					}
				} else {
					misses.Add(1)
				}
			}
		}()
	}
	var writerPanic atomic.Value
	wg.Add(1)
	go func() {
		defer wg.Done()
		defer func() {
			if p := recover(); p != nil {
				writerPanic.Store(fmt.Sprint(p))
			}
		}()
		<-start
		for i := 0; i < writerOps; i++ {
			switch x := rnd.IntN(20); {
			case x < 3: // keep the hot keys present (a no-op for those still cached)
				c.AddValues(now.Load(), hotBatch())
			case x < 12:
				seen := map[string]bool{}
				var batch []MappingPair
				for k := 0; k < 1+rnd.IntN(15); k++ {
					s := universe[rnd.IntN(len(universe))]
					if !seen[s] {
						seen[s] = true
						batch = append(batch, MappingPair{Str: s, Value: c21Val(s)})
					}
				}
				c.AddValues(now.Load(), batch)
			case x < 15:
				c.RemoveByTTL(1+rnd.IntN(200), now.Load())
			case x < 16:
				c.SetSizeTTL(int64(1000+rnd.IntN(8000)), 5+rnd.IntN(60))
			case x < 17:
				_, _ = c.Save()
			case x < 18:
				_, _, _, _, _, _, _ = c.Stats()
			default:
				now.Add(uint32(1 + rnd.IntN(5)))
			}
		}
	}()
	close(start)
	wg.Wait()
	r.Count("conc.getter_hits", hits.Load())
	r.Count("conc.getter_misses", misses.Load())
	_, _, _, _, _, upd, skips := c.Stats()
	r.Count("conc.timestamp_updates", upd)
	r.Count("conc.timestamp_update_skips", skips)
	if wrong.Load() > 0 {
		r.Violation("C21/cache/get-wrong-value/concurrent", fmt.Sprintf("concurrent getters saw %d wrong values; first: %v", wrong.Load(), firstWrong.Load()), map[string]any{"round": round})
	}
	s := c21Snapshot(c)
	size, ts := s.recompute()
	if p := writerPanic.Load(); p != nil {
		msg := p.(string)
		if strings.HasPrefix(msg, "removing wrong item") {
			// removeItem was handed an access time that is no longer the stored one: a getter
			// refreshed the entry between the eviction scan (read lock) and the removal (write lock)
			r.Violation("C21/cache/sumTS-inexact/stale-accessTS-at-removal", "the cache's own test-mode check fired during eviction under concurrent getters: "+msg+" (stored accessTS, accessTS passed to removeItem, stored value, value passed)", map[string]any{"round": round})
		} else {
			r.Violation("C21/cache/panic-concurrent", "writer panicked: "+msg, map[string]any{"round": round})
		}
	} else {
		if size != s.sumSize {
			r.Violation("C21/cache/sumSize-inexact/concurrent", fmt.Sprintf("after a concurrent round: sumSize %d, recomputed %d", s.sumSize, size), map[string]any{"round": round})
		}
		if ts != s.sumTS {
			r.Violation("C21/cache/sumTS-inexact/concurrent", fmt.Sprintf("after a concurrent round (getters refreshing access times while the writer evicts): sumTS %d, recomputed from the map %d", s.sumTS, ts), map[string]any{"round": round, "test_mode": c.testMode})
		}
	}
	// the image written during the round must load to entries with right values
	c2, err := LoadMappingsCacheSlice(&buf, maxSize)
	if err != nil {
		r.Violation("C21/reload/intact-error", "image saved during a concurrent round does not load: "+err.Error(), map[string]any{"round": round})
	}
	for k, v := range c21Snapshot(c2).m {
		if v.value != c21Val(k) {
			r.Violation("C21/reload/contents-differ", fmt.Sprintf("image saved during a concurrent round holds %q -> %d", k, v.value), map[string]any{"round": round})
			break
		}
	}
	r.Case(hits.Load() > 0 && misses.Load() > 0, fmt.Sprintf("conc %d %d %d", round, hits.Load(), misses.Load()))
}

func TestVerifC21(t *testing.T) {
	r := verifkit.Start(t, "C21", "pcache")
	defer r.Finish()
	r.SetRule("sequential: one case = one random history of AddValues (batches without repeated strings, incl. marker values and empty strings the cache must refuse, late timestamps) / GetValue / GetValueBytes / RemoveByTTL / SetSizeTTL / Save / restart on a cache of 150..4150 bytes over 20..140 strings, the real map and counters read after every call; non-trivial = at least one eviction and one restart; distinct = distinct op sequences. damaged: multi-chunk images truncated or bit-flipped at random positions; non-trivial = a non-empty strict subset loaded.")
	r.Assume("AddValues batches never repeat a string (every caller builds them from a map); a repeating batch double-counts sumSize/sumTS: recorded, not judged")
	n := r.N(2000, 20000)
	first := 0
	if p := os.Getenv("VERIF_REPLAY"); p != "" {
		var rep struct {
			Witness struct {
				Hist *int `json:"hist"`
			} `json:"witness"`
		}
		if b, err := os.ReadFile(p); err == nil && json.Unmarshal(b, &rep) == nil && rep.Witness.Hist != nil {
			first, n = *rep.Witness.Hist, *rep.Witness.Hist+1
		}
	}
	workers := 8
	if r.Thorough() {
		workers = 16
	}
	if n-first < workers {
		workers = 1
	}
	seed := r.SubSeed("hist")
	r.Parallel(workers, "hist", func(w *verifkit.Worker) {
		for i := first + w.Index; i < n; i += workers {
			h := &c21Hist{r: r, w: w, rnd: rand.New(rand.NewPCG(seed, uint64(i))), index: i}
			h.files = h.rnd.IntN(16) == 0
			h.run()
			w.Count("histories", 1)
			if i < 2 {
				ops := h.ops
				if len(ops) > 40 {
					ops = ops[:40]
				}
				r.Sample(map[string]any{"hist": i, "first_ops": ops})
			}
			w.Case(h.evictions > 0 && h.restarts > 0, h.abs.String())
		}
	})
	// a batch that repeats a string: recorded, not judged
	{
		var b []byte
		c, _ := LoadMappingsCacheSlice(&b, 10000)
		c.AddValues(5, []MappingPair{{Str: "dup", Value: 3}, {Str: "dup", Value: 3}})
		s := c21Snapshot(c)
		if size, _ := s.recompute(); size != s.sumSize {
			r.NotJudged("batch_repeats_a_string_double_counts_sumSize", 1)
		}
	}
	// the same concurrent rounds without the race detector (tighter interleavings)
	for i := 0; i < r.N(150, 1500); i++ {
		c21Concurrent(r, 100000+i, 8, 1500, 400)
	}
	nd := r.N(3, 40)
	r.Parallel(min(nd, 8), "damaged", func(w *verifkit.Worker) {
		for i := w.Index; i < nd; i += min(nd, 8) {
			c21Damaged(r, w, i, r.N(40, 120))
		}
	})
}

// TestVerifC21Race is the concurrent-getter phase; the unit is built with -race.
func TestVerifC21Race(t *testing.T) {
	r := verifkit.Start(t, "C21", "pcache_race")
	defer r.Finish()
	r.SetRule("one case = one round of 8 getter goroutines (GetValue/GetValueBytes, 3 of 4 lookups on 4 hot keys, the rest on 150 strings, virtual clock advancing every third call) against one writer goroutine (AddValues / RemoveByTTL / SetSizeTTL / Save / Stats) on a cache near its size limit, built with -race; every value a getter sees is compared with the value of that string, accounting is recomputed after the round, the image saved during the round is reloaded; non-trivial = hits and misses both seen.")
	rounds := r.N(150, 1500)
	for i := 0; i < rounds; i++ {
		c21Concurrent(r, i, 8, 1500, 400)
	}
}
