//go:build verif

package metajournal

// C20 — metadata replicas converge and name lookups stay correct.
//
// Topology of every generated history (all journals are the real JournalFast, all
// storages the real MetricsStorage, events travel through the real diff function and a
// TL encode/decode, as over RPC):
//
//	source ──► F  (plain replica, e.g. API / aggregator journalFast) ──► AF (agent, plain chain)
//	       ├─► F2 (second plain replica, different batching)
//	       ├─► C  (compact journal of the aggregator) ──► A1, A2 (agents, compact chain)
//	       └─► C2 (compact journal of a second aggregator)
//	Asw: an agent asking C or C2 at random (observed only, outside the statement's chain)
//
// The reference model is the list of every version the source ever produced per entity.

import (
	"context"
	"encoding/binary"
	"encoding/json"
	"errors"
	"fmt"
	"io"
	"log"
	"math"
	"math/rand/v2"
	"os"
	"path/filepath"
	"runtime/debug"
	"sort"
	"strings"
	"testing"

	"github.com/zeebo/xxh3"

	"github.com/VKCOM/statshouse/internal/data_model"
	"github.com/VKCOM/statshouse/internal/data_model/gen2/tlmetadata"
	"github.com/VKCOM/statshouse/internal/format"
	"github.com/VKCOM/statshouse/internal/zzverif/verifkit"
)

type c20Key struct {
	typ int32
	id  int64
}

type c20Metric struct {
	target int // if set, the event is sized so that len(Name)+len(Data)+60 == target
	id   int64
	spec format.MetricMetaValue // JSON-visible fields only, Name/NamespaceID included
}

type c20Group struct {
	id   int64
	spec format.MetricsGroup
}

type c20NS struct {
	id   int64
	spec format.NamespaceMeta
}

type c20Dash struct {
	id      int64
	name    string
	n       int
	deleted uint32
}

type c20Src struct {
	j        *JournalFast
	buf      *[]byte
	version  int64
	clock    uint32
	hist     map[c20Key][]tlmetadata.Event
	keys     []c20Key
	metrics  []*c20Metric
	groups   []*c20Group
	nss      []*c20NS
	dashes   []*c20Dash
	nameEver map[string]map[int64]struct{} // metric name -> metric ids that ever held it
	nextID   [5]int64
	nEvents  int
}

type c20Saved struct {
	valid         bool
	version       int64
	hash          string
	loaderVersion int64
	events        []tlmetadata.Event // in journal order
}

type c20Replica struct {
	name    string
	compact bool // the journal itself compacts
	chainC  bool // content arrives in compact form (C, A1, A2)
	up      *c20Replica
	src     *c20Src
	j       *JournalFast
	ms      *MetricsStorage
	buf     *[]byte  // slice backing store
	fp      *os.File // file backing store (file-backed histories)
	path    string
	saved   c20Saved // what the backing image held when it was last written completely
	damaged bool     // the backing image was truncated by a restart since then
	instVer int64    // version at the last effective Save of this journal instance (0: none)
	gen     int      // reload generation
	observe bool     // not part of the judged topology (agent that switches between aggregators)
}

func (rp *c20Replica) upstream() *JournalFast {
	if rp.up != nil {
		return rp.up.j
	}
	return rp.src.j
}

type c20Hist struct {
	r       *verifkit.Run
	w       *verifkit.Worker
	rnd     *rand.Rand
	index   int
	fat     bool
	huge    bool // events around the byte limit of one diff response; no Save (items above ChunkSize/2 are outside the storage contract)
	files   bool
	dir     string
	src     *c20Src
	reps    []*c20Replica
	ops     []string
	abs     strings.Builder
	curOp   string
	// loader knobs
	cut      int
	maxItems int
	maxBytes int
	failNext bool
	// statistics of this history
	nRename, nReuse, nPartial, nGroupChange, nReloadTrunc, nReloadPrefix, nSync int
	violated                                                                  bool
}

var c20Prefixes = []string{"a", "ab", "abc", "ab_x", "b", "ba", "bab", "c", "ca_x", "d", "dd", "n1:a", "n1:ab", "n2:b"}
var c20Suffixes = []string{"", "_m", "0", "1", "2", "_total"}
var c20RawKinds = []string{"", "", "uint", "hex", "ip", "timestamp", "int64", "lexenc_float"}
var c20Kinds = []string{"", "counter", "value", "value_p", "unique", "mixed", "mixed_p"}
var c20Resolutions = []int{0, 1, 5, 15, 60, 7}

func (h *c20Hist) logOp(f string, a ...any) {
	s := fmt.Sprintf(f, a...)
	h.curOp = s
	h.ops = append(h.ops, s)
}

func (h *c20Hist) witness(extra map[string]any) map[string]any {
	ops := h.ops
	if len(ops) > 400 {
		ops = ops[len(ops)-400:]
	}
	w := map[string]any{"hist": h.index, "fat": h.fat, "huge": h.huge, "files": h.files, "ops": ops}
	for k, v := range extra {
		w[k] = v
	}
	return w
}

func (h *c20Hist) bad(key, what string, extra map[string]any) {
	h.violated = true
	h.r.Violation("C20/"+key, what, h.witness(extra))
}

// ---------------------------------------------------------------- source side

func c20CloneSpec(s *format.MetricMetaValue) format.MetricMetaValue {
	v := *s
	v.Tags = append([]format.MetricMetaTag(nil), s.Tags...)
	if s.TagsDraft != nil {
		v.TagsDraft = map[string]format.MetricMetaTag{}
		for k, t := range s.TagsDraft {
			v.TagsDraft[k] = t
		}
	}
	v.FairKeyTagIDs = append([]string(nil), s.FairKeyTagIDs...)
	return v
}

func c20NsOfName(src *c20Src, name string) int32 {
	ns, _ := format.SplitNamespace(name)
	if ns == "" {
		return 0
	}
	for _, n := range src.nss {
		if n.spec.Name == ns {
			return int32(n.id)
		}
	}
	return 0
}

// emit appends one source event exactly as the metadata engine's journal would hand it
// out: FieldMask has only the namespace bit, no Metadata.
func (h *c20Hist) emit(ev tlmetadata.Event) {
	s := h.src
	s.version += 1 + int64(h.rnd.IntN(3))
	s.clock++
	ev.Version = s.version
	if ev.UpdateTime == 0 {
		ev.UpdateTime = 1000 + s.clock
	}
	ev.ClearMetadata()
	ns := ev.NamespaceId
	ev.FieldMask = 0
	ev.SetNamespaceId(ns)
	s.j.mu.Lock()
	s.j.addEventLocked(nil, ev)
	s.j.finishUpdateLocked()
	s.j.mu.Unlock()
	k := c20Key{ev.EventType, ev.Id}
	if _, ok := s.hist[k]; !ok {
		s.keys = append(s.keys, k)
	}
	s.hist[k] = append(s.hist[k], ev)
	s.nEvents++
	if ev.EventType == format.MetricEvent {
		if s.nameEver[ev.Name] == nil {
			s.nameEver[ev.Name] = map[int64]struct{}{}
		}
		s.nameEver[ev.Name][ev.Id] = struct{}{}
	}
	h.w.Count(fmt.Sprintf("src.events.type%d", ev.EventType), 1)
}

func (h *c20Hist) emitMetric(m *c20Metric) {
	build := func() tlmetadata.Event {
		v := c20CloneSpec(&m.spec)
		v.MetricID = int32(m.id)
		v.NamespaceID = c20NsOfName(h.src, v.Name)
		_ = v.RestoreCachedInfo()
		ev, err := EventFromMetricMeta(v, "")
		if err != nil {
			panic(err)
		}
		return ev
	}
	ev := build()
	if m.target != 0 { // size the event exactly: len(Name)+len(Data)+60 is what the diff function counts
		pad := m.target - (len(ev.Name) + len(ev.Data) + 60)
		if pad > 0 {
			m.spec.Description += strings.Repeat("z", pad)
		} else if -pad < len(m.spec.Description)-20 {
			m.spec.Description = m.spec.Description[:len(m.spec.Description)+pad]
		}
		ev = build()
		h.w.Count("src.events_sized_to_response_limit", 1)
		h.w.Count(fmt.Sprintf("src.events_sized_to_response_limit.delta%+d", len(ev.Name)+len(ev.Data)+60-data_model.MaxJournalBytesSent), 1)
	}
	h.emit(ev)
}

// hugeMetric creates (or re-sizes) a metric whose event is just below, at or above the
// byte limit of one diff response.
func (h *c20Hist) hugeMetric() {
	delta := []int{-1, 0, 1, -61, 2, 1000, -1000, 100_000}[h.rnd.IntN(8)]
	var m *c20Metric
	for _, x := range h.src.metrics {
		if x.target != 0 && h.rnd.IntN(2) == 0 {
			m = x
		}
	}
	if m == nil {
		n, ok := h.freeMetricName()
		if !ok {
			return
		}
		h.src.nextID[format.MetricEvent]++
		m = &c20Metric{id: h.src.nextID[format.MetricEvent], spec: format.MetricMetaValue{Name: n, Description: "__whales_off "}}
		h.src.metrics = append(h.src.metrics, m)
	}
	m.target = data_model.MaxJournalBytesSent + delta
	h.logOp("huge metric %d %q sized to response limit %+d", m.id, m.spec.Name, delta)
	h.abs.WriteString(fmt.Sprintf("H%+d;", delta))
	h.emitMetric(m)
}

func (h *c20Hist) emitGroup(g *c20Group, sameTime bool) {
	v := g.spec
	v.ID = int32(g.id)
	v.NamespaceID = c20NsOfName(h.src, v.Name)
	_ = v.RestoreCachedInfo(v.ID < 0)
	ev, err := EventFromGroupMeta(v, "")
	if err != nil {
		panic(err)
	}
	if sameTime {
		if hs := h.src.hist[c20Key{format.MetricsGroupEvent, g.id}]; len(hs) > 0 {
			ev.UpdateTime = hs[len(hs)-1].UpdateTime
		}
	}
	h.emit(ev)
}

func (h *c20Hist) emitNS(n *c20NS) {
	v := n.spec
	v.ID = int32(n.id)
	_ = v.RestoreCachedInfo(v.ID < 0)
	ev, err := EventFromNamespaceMeta(v, "")
	if err != nil {
		panic(err)
	}
	h.emit(ev)
}

func (h *c20Hist) emitDash(d *c20Dash) {
	ev, err := EventFromDashboardMeta(format.DashboardMeta{DashboardID: int32(d.id), Name: d.name, DeleteTime: d.deleted,
		JSONData: map[string]interface{}{"n": d.n, "title": d.name}}, "")
	if err != nil {
		panic(err)
	}
	h.emit(ev)
}

func (h *c20Hist) metricNameUsed(n string) bool {
	for _, m := range h.src.metrics {
		if m.spec.Name == n {
			return true
		}
	}
	return false
}

func (h *c20Hist) groupNameUsed(n string) bool {
	for _, g := range h.src.groups {
		if g.spec.Name == n {
			return true
		}
	}
	return false
}

func (h *c20Hist) randMetricName() string {
	return c20Prefixes[h.rnd.IntN(len(c20Prefixes))] + c20Suffixes[h.rnd.IntN(len(c20Suffixes))]
}

func (h *c20Hist) freeMetricName() (string, bool) {
	for try := 0; try < 8; try++ {
		n := h.randMetricName()
		if !h.metricNameUsed(n) {
			return n, true
		}
	}
	return "", false
}

func (h *c20Hist) fatDescription() string {
	n := 150_000 + h.rnd.IntN(140_000)
	return "__whales_off " + strings.Repeat(string(rune('a'+h.rnd.IntN(26))), n)
}

func (h *c20Hist) randTags() []format.MetricMetaTag {
	n := h.rnd.IntN(6)
	tags := make([]format.MetricMetaTag, n)
	for i := range tags {
		if h.rnd.IntN(3) == 0 {
			tags[i].Name = fmt.Sprintf("t%c%d", 'a'+rune(h.rnd.IntN(3)), i)
		}
		tags[i].RawKind = c20RawKinds[h.rnd.IntN(len(c20RawKinds))]
		if h.rnd.IntN(3) == 0 {
			tags[i].Description = fmt.Sprintf("tag %d", h.rnd.IntN(100))
		}
		if h.rnd.IntN(8) == 0 {
			tags[i].ValueComments = map[string]string{"1": "one", " 2": "two"}
		}
	}
	return tags
}

func (h *c20Hist) newMetricSpec(name string) format.MetricMetaValue {
	rnd := h.rnd
	v := format.MetricMetaValue{Name: name}
	v.Tags = h.randTags()
	v.Kind = c20Kinds[rnd.IntN(len(c20Kinds))]
	v.Resolution = c20Resolutions[rnd.IntN(len(c20Resolutions))]
	v.Weight = []float64{0, 1, 2, 0.5}[rnd.IntN(4)]
	v.Disable = rnd.IntN(8) == 0
	switch rnd.IntN(6) {
	case 0:
		v.Description = "plain description"
	case 1:
		v.Description = "keeps __round_sample_factors in compact form"
	case 2:
		v.Description = "toggle statshouse$x"
	}
	if h.fat && rnd.IntN(2) == 0 {
		v.Description = h.fatDescription()
	}
	if rnd.IntN(6) == 0 {
		v.StringTopName = "stop"
		v.StringTopDescription = "string top"
	}
	if rnd.IntN(6) == 0 {
		v.ShardStrategy = format.ShardFixed
		v.ShardNum = uint32(rnd.IntN(4))
	}
	if rnd.IntN(8) == 0 {
		v.TagsDraft = map[string]format.MetricMetaTag{"draft_a": {Name: "draft_a"}, "draft_b": {Name: "draft_b", RawKind: "hex"}}
	}
	if rnd.IntN(8) == 0 && len(v.Tags) > 1 {
		v.FairKeyTagIDs = []string{"1"}
	}
	if rnd.IntN(8) == 0 {
		v.SkipMaxHost, v.SkipSumSquare, v.MetricType = true, true, "second"
	}
	return v
}

func (h *c20Hist) createMetric(name string) *c20Metric {
	s := h.src
	s.nextID[format.MetricEvent] += 1 + int64(h.rnd.IntN(2))
	m := &c20Metric{id: s.nextID[format.MetricEvent], spec: h.newMetricSpec(name)}
	s.metrics = append(s.metrics, m)
	if len(s.nameEver[name]) > 0 {
		h.nReuse++
		h.w.Count("src.metric_name_reused", 1)
	}
	h.logOp("create metric %d %q", m.id, name)
	h.abs.WriteString("M" + name + ";")
	h.emitMetric(m)
	return m
}

func (h *c20Hist) renameMetric(m *c20Metric, name string) {
	old := m.spec.Name
	m.spec.Name = name
	h.nRename++
	h.w.Count("src.metric_renames", 1)
	if ever := h.src.nameEver[name]; len(ever) > 0 {
		if _, self := ever[m.id]; !self || len(ever) > 1 {
			h.nReuse++
			h.w.Count("src.metric_name_reused", 1)
		}
	}
	h.logOp("rename metric %d %q -> %q", m.id, old, name)
	h.abs.WriteString("R" + old + ">" + name + ";")
	h.emitMetric(m)
}

func (h *c20Hist) editMetric(m *c20Metric, visible bool) {
	if visible {
		switch h.rnd.IntN(4) {
		case 0:
			m.spec.Tags = h.randTags()
		case 1:
			m.spec.Disable = !m.spec.Disable
		case 2:
			m.spec.Resolution = c20Resolutions[h.rnd.IntN(len(c20Resolutions))]
		case 3:
			m.spec.Weight = []float64{0, 1, 2, 0.5, 3}[h.rnd.IntN(5)]
		}
		h.logOp("edit metric %d %q (compact-visible)", m.id, m.spec.Name)
		h.abs.WriteString("E;")
	} else {
		if len(m.spec.Description) < 1000 && !strings.Contains(m.spec.Description, "__") && !strings.Contains(m.spec.Description, "$") {
			m.spec.Description += "x"
		} else {
			m.spec.StringTopDescription += "y"
		}
		h.logOp("edit metric %d %q (description only)", m.id, m.spec.Name)
		h.abs.WriteString("e;")
	}
	h.emitMetric(m)
}

func (h *c20Hist) sourceOp() {
	rnd, s := h.rnd, h.src
	pickMetric := func() *c20Metric {
		if len(s.metrics) == 0 {
			return nil
		}
		return s.metrics[rnd.IntN(len(s.metrics))]
	}
	switch x := rnd.IntN(100); {
	case x < 18: // create metric
		if n, ok := h.freeMetricName(); ok {
			h.createMetric(n)
		}
	case x < 30: // compact-visible edit
		if m := pickMetric(); m != nil {
			h.editMetric(m, true)
		}
	case x < 42: // invisible edit
		if m := pickMetric(); m != nil {
			h.editMetric(m, false)
		}
	case x < 58: // rename
		if m := pickMetric(); m != nil {
			if n, ok := h.freeMetricName(); ok {
				h.renameMetric(m, n)
			}
		}
	case x < 66: // rename, reuse the freed name for a new metric, touch the renamed one again
		if m := pickMetric(); m != nil {
			if n, ok := h.freeMetricName(); ok {
				old := m.spec.Name
				h.renameMetric(m, n)
				if rnd.IntN(4) != 0 {
					h.createMetric(old)
				} else if m2 := pickMetric(); m2 != m {
					h.renameMetric(m2, old)
				}
				if rnd.IntN(3) != 0 {
					h.editMetric(m, rnd.IntN(2) == 0)
				}
			}
		}
	case x < 69: // a name leaves a metric and comes back to it while another metric held it for a while;
		// a lagging (or compact) replica may never see the first metric change at all
		if m := pickMetric(); m != nil {
			n1, ok1 := h.freeMetricName()
			if !ok1 {
				return
			}
			orig := m.spec.Name
			h.renameMetric(m, n1)
			other := h.createMetric(orig)
			if rnd.IntN(2) == 0 {
				h.editMetric(m, false)
			}
			for k := rnd.IntN(3); k > 0; k-- {
				rp := h.reps[rnd.IntN(len(h.reps))]
				h.logOp("deliver %s cut=small (inside name ping-pong)", rp.name)
				h.deliver(rp, 1+rnd.IntN(3), data_model.MaxJournalItemsSent, data_model.MaxJournalBytesSent)
			}
			if n2, ok2 := h.freeMetricName(); ok2 {
				h.renameMetric(other, n2)
				h.renameMetric(m, orig)
				if rnd.IntN(2) == 0 {
					h.editMetric(other, rnd.IntN(2) == 0)
				}
			}
		}
	case x < 74: // create group
		n := c20Prefixes[rnd.IntN(len(c20Prefixes))]
		if !h.groupNameUsed(n) {
			s.nextID[format.MetricsGroupEvent]++
			g := &c20Group{id: s.nextID[format.MetricsGroupEvent], spec: format.MetricsGroup{Name: n, Weight: 1, Disable: rnd.IntN(5) == 0}}
			s.groups = append(s.groups, g)
			h.nGroupChange++
			h.logOp("create group %d %q disable=%v", g.id, n, g.spec.Disable)
			h.abs.WriteString("G" + n + ";")
			h.emitGroup(g, false)
		}
	case x < 88: // change group
		if len(s.groups) == 0 {
			return
		}
		g := s.groups[rnd.IntN(len(s.groups))]
		switch rnd.IntN(8) {
		case 0, 1, 2:
			g.spec.Disable = !g.spec.Disable
			h.nGroupChange++
			h.logOp("toggle group %d %q disable=%v", g.id, g.spec.Name, g.spec.Disable)
			h.abs.WriteString("g!;")
			h.emitGroup(g, false)
		case 3, 4, 5:
			n := c20Prefixes[rnd.IntN(len(c20Prefixes))]
			if !h.groupNameUsed(n) {
				h.logOp("rename group %d %q -> %q", g.id, g.spec.Name, n)
				h.abs.WriteString("g" + g.spec.Name + ">" + n + ";")
				g.spec.Name = n
				h.nGroupChange++
				h.emitGroup(g, false)
			}
		case 6:
			g.spec.Weight = float64(1 + rnd.IntN(4))
			h.logOp("weight group %d %q = %v", g.id, g.spec.Name, g.spec.Weight)
			h.abs.WriteString("gw;")
			h.emitGroup(g, false)
		case 7: // re-save without any change (compact journal skips it)
			h.logOp("touch group %d %q", g.id, g.spec.Name)
			h.abs.WriteString("gt;")
			h.emitGroup(g, true)
		}
	case x < 91: // namespaces (never renamed: SaveNamespace forbids it)
		if len(s.nss) < 3 && rnd.IntN(2) == 0 {
			s.nextID[format.NamespaceEvent]++
			n := &c20NS{id: s.nextID[format.NamespaceEvent], spec: format.NamespaceMeta{Name: []string{"n1", "n2", "n3"}[len(s.nss)], Weight: 1}}
			s.nss = append(s.nss, n)
			h.logOp("create namespace %d %q", n.id, n.spec.Name)
			h.abs.WriteString("N;")
			h.emitNS(n)
		} else if len(s.nss) > 0 {
			n := s.nss[rnd.IntN(len(s.nss))]
			n.spec.Weight = float64(1 + rnd.IntN(5))
			n.spec.Disable = rnd.IntN(4) == 0
			h.logOp("edit namespace %d %q", n.id, n.spec.Name)
			h.abs.WriteString("n;")
			h.emitNS(n)
		}
	case x < 95: // dashboards: dropped by compact journals
		if len(s.dashes) == 0 || rnd.IntN(2) == 0 {
			s.nextID[format.DashboardEvent]++
			d := &c20Dash{id: s.nextID[format.DashboardEvent], name: fmt.Sprintf("dash %d", s.nextID[format.DashboardEvent])}
			s.dashes = append(s.dashes, d)
			h.logOp("create dashboard %d", d.id)
			h.abs.WriteString("D;")
			h.emitDash(d)
		} else {
			d := s.dashes[rnd.IntN(len(s.dashes))]
			d.n++
			if rnd.IntN(4) == 0 {
				d.deleted = 777
			}
			h.logOp("edit dashboard %d", d.id)
			h.abs.WriteString("d;")
			h.emitDash(d)
		}
	case x < 97: // prom configs: dropped by compact journals
		id := []int64{format.PrometheusConfigID, format.PrometheusGeneratedConfigID, format.KnownTagsConfigID}[rnd.IntN(3)]
		h.logOp("prom config %d", id)
		h.abs.WriteString("P;")
		h.emit(tlmetadata.Event{Id: id, Name: "prom-config", EventType: format.PromConfigEvent, Data: fmt.Sprintf("cfg %d", rnd.IntN(1000))})
	case x < 98: // built-in group overridden through the journal
		g := format.MetricsGroup{Name: "__default", Weight: float64(1 + rnd.IntN(3))}
		h.logOp("edit builtin group -4 weight %v", g.Weight)
		h.abs.WriteString("B;")
		bg := &c20Group{id: int64(format.BuiltinGroupIDDefault), spec: g}
		h.emitGroup(bg, false)
	default: // the journal-dump marker metric: updateJournal cuts the batch after it
		if !h.metricNameUsed(format.StatshouseJournalDump) {
			h.createMetric(format.StatshouseJournalDump)
		} else {
			for _, m := range s.metrics {
				if m.spec.Name == format.StatshouseJournalDump {
					h.editMetric(m, false)
				}
			}
		}
	}
}

// ---------------------------------------------------------------- replica side

func c20Wire(evs []tlmetadata.Event) []tlmetadata.Event {
	out := make([]tlmetadata.Event, len(evs))
	var buf []byte
	for i := range evs {
		buf = evs[i].WriteTL1Boxed(buf[:0])
		rest, err := out[i].ReadTL1Boxed(buf)
		if err != nil || len(rest) != 0 {
			panic(fmt.Sprintf("verif: TL round trip of a journal event failed: %v", err))
		}
	}
	return out
}

func (h *c20Hist) attach(rp *c20Replica) {
	rp.j.metaLoader = func(_ context.Context, lastVersion int64, returnIfEmpty bool) ([]tlmetadata.Event, int64, error) {
		if h.failNext {
			h.failNext = false
			return nil, 0, errors.New("verif: injected loader error")
		}
		up := rp.upstream()
		var resp tlmetadata.GetJournalResponsenew
		up.mu.RLock()
		up.getJournalDiffLocked3Limits(lastVersion, &resp, h.maxItems, h.maxBytes)
		up.mu.RUnlock()
		// sync makes progress: a diff asked from a version behind the upstream is never empty
		// (otherwise the replica would sit in long poll forever)
		h.w.Count("sync.diffs_requested", 1)
		up.mu.RLock()
		upVersion := up.currentVersion
		up.mu.RUnlock()
		if lastVersion < upVersion {
			h.w.Count("sync.diffs_requested_while_behind", 1)
			if len(resp.Events) == 0 {
				h.bad("sync/empty-diff-while-behind", fmt.Sprintf("replica %s asked for events after version %d with limits %d items / %d bytes, upstream is at version %d, the diff is empty", rp.name, lastVersion, h.maxItems, h.maxBytes, upVersion),
					map[string]any{"replica": rp.name})
			}
		}
		evs := c20Wire(resp.Events)
		if h.cut < len(evs) {
			evs = evs[:h.cut]
			h.nPartial++
			h.w.Count("deliver.partial", 1)
		}
		h.w.Count("deliver.events", int64(len(evs)))
		return evs, resp.CurrentVersion, nil
	}
}

func (h *c20Hist) open(rp *c20Replica, image []byte) error {
	rp.ms = MakeMetricsStorage(nil)
	apply := []ApplyEvent{rp.ms.ApplyEvent}
	var err error
	if h.files {
		if rp.fp != nil {
			_ = rp.fp.Close()
		}
		rp.gen++
		rp.path = filepath.Join(h.dir, fmt.Sprintf("%s-%d.journal", rp.name, rp.gen))
		if werr := os.WriteFile(rp.path, image, 0o644); werr != nil {
			panic(werr)
		}
		fp, oerr := os.OpenFile(rp.path, os.O_CREATE|os.O_RDWR, 0o666)
		if oerr != nil {
			panic(oerr)
		}
		rp.fp = fp
		rp.j, err = LoadJournalFastFile(fp, data_model.JournalDDOSProtectionTimeout, rp.compact, apply)
		rp.j.SetDumpPathPrefix(filepath.Join(h.dir, "dump-"+rp.name)) // the journal-dump marker metric makes the journal write a dump
	} else {
		b := append([]byte(nil), image...)
		rp.buf = &b
		rp.j, err = LoadJournalFastSlice(rp.buf, data_model.JournalDDOSProtectionTimeout, rp.compact, apply)
	}
	h.attach(rp)
	return err
}

func (rp *c20Replica) image() []byte {
	if rp.fp != nil {
		b, err := os.ReadFile(rp.path)
		if err != nil {
			panic(err)
		}
		return b
	}
	return append([]byte(nil), *rp.buf...)
}

func c20Ordered(j *JournalFast) []tlmetadata.Event {
	var out []tlmetadata.Event
	j.order.Ascend(func(o journalOrder) bool {
		out = append(out, j.journal[o.key].Event)
		return true
	})
	return out
}

func (h *c20Hist) save(rp *c20Replica) {
	ok, ver, err := rp.j.Save()
	h.logOp("save %s -> ok=%v version=%d err=%v", rp.name, ok, ver, err)
	if ok && len(rp.image()) > data_model.ChunkSize/2+1000 {
		h.w.Count("save.multi_chunk_image", 1)
	}
	h.abs.WriteString("S" + rp.name + ";")
	if err != nil {
		h.bad("save/error", "Save returned an error on a healthy backing store: "+err.Error(), map[string]any{"replica": rp.name})
		return
	}
	if ok {
		h.w.Count("save.effective", 1)
		rp.saved = c20Saved{valid: true, version: rp.j.currentVersion, hash: rp.j.stateHashStr, loaderVersion: rp.j.loaderVersion, events: c20Ordered(rp.j)}
		rp.damaged = false
		rp.instVer = rp.j.currentVersion
	} else {
		h.w.Count("save.noop", 1)
		if rp.instVer != rp.j.currentVersion {
			h.bad("save/skipped-although-changed", fmt.Sprintf("Save was a no-op at version %d, this instance last saved version %d", rp.j.currentVersion, rp.instVer), map[string]any{"replica": rp.name})
		}
	}
}

// reload restarts a replica from its (possibly truncated) file, as a process restart does.
func (h *c20Hist) reload(rp *c20Replica) {
	if h.rnd.IntN(3) != 0 { // most restarts follow a shutdown that saved
		h.save(rp)
	}
	img := rp.image()
	full := len(img)
	cut := full
	if full > 0 && h.rnd.IntN(5) < 3 {
		mode := h.rnd.IntN(4)
		if full > data_model.ChunkSize/2 && h.rnd.IntN(2) == 0 {
			mode = 2
		}
		switch mode {
		case 0:
			cut = h.rnd.IntN(full)
		case 1:
			cut = full - 1 - h.rnd.IntN(min(full, 40))
		case 2: // inside the second half: for multi-chunk images keeps a non-empty prefix
			cut = full/2 + h.rnd.IntN(full-full/2)
		default:
			cut = h.rnd.IntN(min(full, 64))
		}
		if cut < 0 {
			cut = 0
		}
	}
	img = img[:cut]
	saved := rp.saved
	err := h.open(rp, img)
	h.logOp("reload %s image %d of %d bytes -> version=%d loaderVersion=%d entries=%d err=%v", rp.name, cut, full, rp.j.currentVersion, rp.j.loaderVersion, len(rp.j.journal), err != nil)
	h.abs.WriteString(fmt.Sprintf("L%s%v;", rp.name, cut == full))
	rp.instVer = 0
	if cut < full {
		rp.damaged = true
	}
	got := c20Ordered(rp.j)
	if !rp.damaged {
		h.w.Count("reload.intact", 1)
		if err != nil {
			h.bad("reload/intact-error", "loading an intact image failed: "+err.Error(), map[string]any{"replica": rp.name})
		}
		if saved.valid {
			if rp.j.currentVersion != saved.version || rp.j.stateHashStr != saved.hash || rp.j.loaderVersion != saved.loaderVersion || len(got) != len(saved.events) {
				h.bad("reload/intact-differs", fmt.Sprintf("intact reload: version %d hash %s loaderVersion %d entries %d, at save: %d %s %d %d",
					rp.j.currentVersion, rp.j.stateHashStr, rp.j.loaderVersion, len(got), saved.version, saved.hash, saved.loaderVersion, len(saved.events)), map[string]any{"replica": rp.name})
			}
		}
	} else {
		h.nReloadTrunc++
		h.w.Count("reload.truncated", 1)
		if cut == full {
			h.w.Count("reload.of_image_damaged_earlier", 1)
		}
		if len(got) > 0 {
			h.nReloadPrefix++
			h.w.Count("reload.truncated_nonempty_prefix", 1)
		}
		if rp.j.loaderVersion > rp.j.currentVersion && saved.valid && len(got) < len(saved.events) {
			h.bad("reload/loader-version-trusted-after-damage", fmt.Sprintf("truncated image gave %d of %d events but loaderVersion %d > currentVersion %d: the lost events would never be requested again",
				len(got), len(saved.events), rp.j.loaderVersion, rp.j.currentVersion), map[string]any{"replica": rp.name})
		}
	}
	if saved.valid {
		if len(got) > len(saved.events) {
			h.bad("reload/not-a-prefix", fmt.Sprintf("reload produced %d events, %d were saved", len(got), len(saved.events)), map[string]any{"replica": rp.name})
		} else {
			for i := range got {
				if got[i] != saved.events[i] {
					h.bad("reload/not-a-prefix", fmt.Sprintf("event %d after reload differs from the saved one", i), map[string]any{"replica": rp.name, "got": c20Brief(got[i]), "saved": c20Brief(saved.events[i])})
					break
				}
			}
		}
	}
	h.checkJournalIntegrity(rp)
	h.checkGroupsOwnView(rp)
}

func c20Brief(e tlmetadata.Event) string {
	d := e.Data
	if len(d) > 120 {
		d = d[:120] + "…"
	}
	return fmt.Sprintf("{type %d id %d name %q ns %d ver %d upd %d unused %d mask %d data %s}", e.EventType, e.Id, e.Name, e.NamespaceId, e.Version, e.UpdateTime, e.Unused, e.FieldMask, d)
}

// deliver runs one real update round of the replica.
func (h *c20Hist) deliver(rp *c20Replica, cut, maxItems, maxBytes int) (fin bool) {
	h.cut, h.maxItems, h.maxBytes = cut, maxItems, maxBytes
	before := rp.j.loaderVersion
	fin, err := rp.j.updateJournalIsFinished(nil)
	if err != nil {
		h.w.Count("deliver.loader_errors", 1)
		return false
	}
	h.w.Count("deliver.rounds", 1)
	if !fin && rp.j.loaderVersion <= before {
		h.bad("delivery/no-progress", fmt.Sprintf("replica %s received a non-empty batch but its loader version stayed at %d", rp.name, before), map[string]any{"replica": rp.name})
		return true
	}
	return fin
}

func (h *c20Hist) syncAll() bool {
	for _, rp := range h.reps {
		for n := 0; ; n++ {
			if h.deliver(rp, math.MaxInt, data_model.MaxJournalItemsSent, data_model.MaxJournalBytesSent) {
				break
			}
			if n > h.src.nEvents+20 { // every round with production limits delivers at least one event
				h.bad("sync/too-many-rounds", fmt.Sprintf("replica %s did not finish within %d diff rounds (source produced %d events)", rp.name, n, h.src.nEvents), map[string]any{"replica": rp.name})
				return false
			}
		}
	}
	return true
}

// ---------------------------------------------------------------- oracles

func (h *c20Hist) checkJournalIntegrity(rp *c20Replica) {
	j := rp.j
	j.mu.RLock()
	defer j.mu.RUnlock()
	var x xxh3.Uint128
	var scratch []byte
	n := 0
	var last int64
	okOrder := true
	j.order.Ascend(func(o journalOrder) bool {
		e, ok := j.journal[o.key]
		if !ok || e.Version != o.version || o.version <= last {
			okOrder = false
			return false
		}
		last = o.version
		n++
		var hh xxh3.Uint128
		scratch, hh = hashWithoutVersionJournalEvent(scratch, e.Event)
		if hh != e.hash {
			okOrder = false
			return false
		}
		x.Hi ^= hh.Hi
		x.Lo ^= hh.Lo
		return true
	})
	if !okOrder || n != len(j.journal) || (n > 0 && last != j.currentVersion) {
		h.bad("journal/order-inconsistent", fmt.Sprintf("replica %s: order index and entry map disagree (ordered %d, entries %d, last %d, current %d)", rp.name, n, len(j.journal), last, j.currentVersion), map[string]any{"replica": rp.name})
		return
	}
	if x != j.stateHash {
		h.bad("hash/not-xor-of-entries", fmt.Sprintf("replica %s: state hash is not the xor of its entries' hashes", rp.name), map[string]any{"replica": rp.name})
	}
	hb := j.stateHash.Bytes()
	if fmt.Sprintf("%x", hb[:]) != j.stateHashStr {
		h.bad("hash/string-stale", fmt.Sprintf("replica %s: published hash string %s is not the current state hash", rp.name, j.stateHashStr), map[string]any{"replica": rp.name})
	}
}

type c20G struct {
	id      int32
	name    string
	disable bool
}

// wantGroups returns the set of acceptable group ids for a metric name: the enabled user
// group(s) with the longest matching prefix, else the default group.
func c20WantGroups(groups []c20G, metric string) (ids []int32, best string) {
	found := false
	for _, g := range groups {
		if g.id <= 0 || g.disable || !strings.HasPrefix(metric, g.name) {
			continue
		}
		if !found || len(g.name) > len(best) {
			best, ids, found = g.name, []int32{g.id}, true
		} else if len(g.name) == len(best) {
			ids = append(ids, g.id)
		}
	}
	if !found {
		return []int32{format.BuiltinGroupIDDefault}, ""
	}
	return ids, best
}

func c20Has(ids []int32, id int32) bool {
	for _, x := range ids {
		if x == id {
			return true
		}
	}
	return false
}

// after every applied batch a storage must be consistent with the groups it knows itself
func (h *c20Hist) checkGroupsOwnView(rp *c20Replica) {
	ms := rp.ms
	ms.mu.RLock()
	defer ms.mu.RUnlock()
	groups := make([]c20G, 0, len(ms.groupsByID))
	for _, g := range ms.groupsByID {
		groups = append(groups, c20G{g.ID, g.Name, g.Disable})
	}
	for _, m := range ms.metricsByID {
		want, best := c20WantGroups(groups, m.Name)
		if len(want) > 1 {
			h.w.Count("group.own_view_ambiguous", 1)
		}
		h.w.Count("group.own_view_checked", 1)
		if !c20Has(want, m.GroupID) {
			h.bad("group/own-view-wrong", fmt.Sprintf("replica %s after a batch: metric %d %q has group %d, its own groups give %v (prefix %q)", rp.name, m.MetricID, m.Name, m.GroupID, want, best),
				map[string]any{"replica": rp.name})
			return
		}
	}
}

func c20View(m *format.MetricMetaValue, compact bool) string {
	var b strings.Builder
	fmt.Fprintf(&b, "id=%d ns=%d name=%q dis=%v ew=%d er=%d fair=%v shard=%q/%d/%d/%d/%d pct=%v stop=%q|", m.MetricID, m.NamespaceID, m.Name, m.Disable,
		m.EffectiveWeight, m.EffectiveResolution, m.FairKeyIndex, m.ShardStrategy, m.ShardNum, m.ShardFixedKey, m.ShardFixedKey2, m.ShardFixedKey2Timestamp, m.HasPercentiles, m.StringTopName)
	for i := 0; i < format.MaxTags; i++ {
		t := m.Name2Tag(format.TagID(i))
		if t == nil {
			fmt.Fprintf(&b, "%d:nil|", i)
			continue
		}
		if t.Name != "" || t.RawKind != "" || t.Index != int32(i) {
			fmt.Fprintf(&b, "%d:%q/%q/%d|", i, t.Name, t.RawKind, t.Index)
		}
		if !compact && (t.Description != "" || len(t.ValueComments) != 0) {
			fmt.Fprintf(&b, "%d:d=%q/%v|", i, t.Description, t.ValueComments)
		}
	}
	var dk []string
	for k := range m.TagsDraft {
		dk = append(dk, k)
	}
	sort.Strings(dk)
	for _, k := range dk {
		t := m.TagsDraft[k]
		fmt.Fprintf(&b, "draft %q:%q/%q|", k, t.Name, t.RawKind)
	}
	keep := format.RemoteConfigMetric(m.Name) || strings.Contains(m.Description, "__round_sample_factors") || strings.Contains(m.Description, "__whales_off") || strings.Contains(m.Description, format.ToggleDescriptionMark)
	if !compact || keep {
		fmt.Fprintf(&b, "desc=%d:%x|", len(m.Description), xxh3.HashString(m.Description))
	}
	if !compact {
		fmt.Fprintf(&b, "kind=%q w=%v res=%d stopd=%q type=%q skip=%v/%v/%v upd=%d", m.Kind, m.Weight, m.Resolution, m.StringTopDescription, m.MetricType, m.SkipMaxHost, m.SkipMinHost, m.SkipSumSquare, m.UpdateTime)
	}
	return b.String()
}

func c20EqualNoVersion(a, b tlmetadata.Event) bool {
	a.Version, b.Version = 0, 0
	return a == b
}

// acceptable reports whether a replica's event for an entity is an acceptable final
// state given every version the source produced for it.
func (h *c20Hist) acceptable(rp *c20Replica, got tlmetadata.Event, hist []tlmetadata.Event) (ok bool, why string) {
	latest := hist[len(hist)-1]
	if !rp.chainC {
		if got != latest {
			return false, "event differs from the source's latest version"
		}
		return true, ""
	}
	// compact chain: the journal may keep an older version number when the newer version is
	// identical in compact form; content must equal the latest version's compact form
	if got.EventType != format.MetricEvent {
		if !c20EqualNoVersion(got, latest) {
			return false, "event content differs from the source's latest version"
		}
		for _, e := range hist {
			if e.Version == got.Version {
				if c20EqualNoVersion(e, latest) {
					return true, ""
				}
				return false, "kept version's content differs from the latest version"
			}
		}
		return false, "version never produced by the source for this entity"
	}
	gm, err := MetricMetaFromEvent(got)
	if err != nil {
		return false, "replica event does not parse: " + err.Error()
	}
	lm, _ := MetricMetaFromEvent(latest)
	gm.Version, lm.Version = 0, 0
	want := c20View(lm, true)
	if c20View(gm, true) != want {
		return false, "compact content differs from the source's latest version: got " + c20View(gm, true) + " want " + want
	}
	if keep := strings.Contains(want, "desc="); !keep && strings.Contains(got.Data, "description") {
		return false, "compact journal kept a description it should drop"
	}
	for _, e := range hist {
		if e.Version == got.Version {
			em, _ := MetricMetaFromEvent(e)
			em.Version = 0
			if c20View(em, true) == want {
				return true, ""
			}
			return false, "kept version's compact content differs from the latest version"
		}
	}
	return false, "version never produced by the source for this entity"
}

func (h *c20Hist) chainName(rp *c20Replica) string {
	if rp.chainC {
		return "compact-chain"
	}
	return "plain-chain"
}

// keptOlder attributes structurally one known way in which an agent of a compact journal
// stays behind although everything was delivered: its upstream compact journal holds the
// entity with the right content but under a version number OLDER than the source's latest
// (applyUpdate skipped the newer event as "equal without version") and not newer than what
// the agent already holds / has asked for, so the diff never contains it again.  That
// happens after the aggregator restarted from an older journal file: it lost the
// intermediate content Y it had once handed to the agent, holds X again, and the source's
// newest X' is identical to X in compact form.
func (h *c20Hist) keptOlder(rp *c20Replica) map[c20Key]bool {
	if !rp.chainC || rp.up == nil || !rp.up.compact {
		return nil
	}
	var out map[c20Key]bool
	for _, k := range h.src.keys {
		if k.typ == format.DashboardEvent || k.typ == format.PromConfigEvent {
			continue
		}
		hist := h.src.hist[k]
		latest := hist[len(hist)-1]
		id := journalEventID{typ: k.typ, id: k.id}
		eu, ok := rp.up.j.journal[id]
		if !ok || eu.Version >= latest.Version {
			continue // upstream did not keep an older version
		}
		if good, _ := h.acceptable(rp.up, eu.Event, hist); !good {
			continue
		}
		got, have := rp.j.journal[id]
		if have {
			if good, _ := h.acceptable(rp, got.Event, hist); good || got.Version <= eu.Version {
				continue
			}
		} else if eu.Version > rp.j.loaderVersion {
			continue
		}
		if out == nil {
			out = map[c20Key]bool{}
		}
		out[k] = true
		what := "has no entry"
		if have {
			what = fmt.Sprintf("holds version %d (%q)", got.Version, got.Name)
		}
		h.bad("converge/compact-chain/restored-content-kept-at-older-version", fmt.Sprintf("replica %s %s for type %d id %d; its upstream compact journal %s holds the right content (%q) but under version %d, older than the source's latest %d (the newer event was skipped as equal without version) and not newer than what the replica has: it is never sent again",
			rp.name, what, k.typ, k.id, rp.up.name, eu.Name, eu.Version, latest.Version), map[string]any{"replica": rp.name, "upstream": c20Brief(eu.Event), "latest": c20Brief(latest)})
	}
	return out
}

// checkConverged is the oracle at a sync point (every replica fetched until its upstream
// had nothing more).
func (h *c20Hist) checkConverged() {
	s := h.src
	h.nSync++
	var attributed map[*c20Replica]bool
	var refGroups []c20G
	for _, g := range s.groups {
		refGroups = append(refGroups, c20G{int32(g.id), g.spec.Name, g.spec.Disable})
	}
	for _, rp := range h.reps {
		chain := h.chainName(rp)
		x := map[string]any{"replica": rp.name}
		h.checkJournalIntegrity(rp)
		if rp.observe {
			h.observeSwitcher(rp)
			continue
		}
		attr := h.keptOlder(rp)
		if len(attr) > 0 {
			if attributed == nil {
				attributed = map[*c20Replica]bool{}
			}
			attributed[rp] = true
		}
		staleNames := map[string]bool{}
		groupAttr := false
		for k := range attr {
			groupAttr = groupAttr || k.typ == format.MetricsGroupEvent
			if k.typ == format.MetricEvent {
				if m := rp.ms.GetMetaMetric(int32(k.id)); m != nil {
					staleNames[m.Name] = true
				}
			}
		}
		// ---- journal level: exactly the source's latest version of every entity
		want := 0
		for _, k := range s.keys {
			hist := s.hist[k]
			dropped := rp.chainC && (k.typ == format.DashboardEvent || k.typ == format.PromConfigEvent)
			got, ok := rp.j.journal[journalEventID{typ: k.typ, id: k.id}]
			if dropped {
				if ok {
					h.bad("converge/"+chain+"/kept-discarded-type", fmt.Sprintf("replica %s keeps an event of type %d that compact journals drop", rp.name, k.typ), x)
				}
				continue
			}
			want++
			if attr[k] {
				continue
			}
			if !ok {
				h.bad("converge/"+chain+"/missing-entity", fmt.Sprintf("replica %s has no entry for type %d id %d (%q)", rp.name, k.typ, k.id, hist[len(hist)-1].Name), x)
				continue
			}
			if ok2, why := h.acceptable(rp, got.Event, hist); !ok2 {
				cls := "content-differs"
				if got.Version != hist[len(hist)-1].Version && !rp.chainC {
					cls = "stale-version"
				}
				h.bad("converge/"+chain+"/"+cls, fmt.Sprintf("replica %s type %d id %d: %s", rp.name, k.typ, k.id, why), map[string]any{"replica": rp.name, "got": c20Brief(got.Event), "latest": c20Brief(hist[len(hist)-1])})
			}
			h.w.Count("converge.entities_compared", 1)
		}
		if len(rp.j.journal) != want && len(attr) == 0 {
			h.bad("converge/"+chain+"/extra-entity", fmt.Sprintf("replica %s has %d entries, the source has %d", rp.name, len(rp.j.journal), want), x)
		}
		if !rp.chainC && rp.j.currentVersion != s.j.currentVersion {
			h.bad("converge/"+chain+"/version-behind", fmt.Sprintf("replica %s at version %d, source at %d", rp.name, rp.j.currentVersion, s.j.currentVersion), x)
		}
		// ---- storage level
		ms := rp.ms
		nMetrics := 0
		for _, m := range s.metrics {
			nMetrics++
			hist := s.hist[c20Key{format.MetricEvent, m.id}]
			latest := hist[len(hist)-1]
			name := m.spec.Name
			if attr[c20Key{format.MetricEvent, m.id}] || staleNames[name] {
				continue // reported once under the structural key above
			}
			got := ms.GetMetaMetric(int32(m.id))
			if got == nil {
				h.bad("storage/"+chain+"/metric-missing", fmt.Sprintf("replica %s storage has no metric %d (%q)", rp.name, m.id, name), x)
				continue
			}
			if got.Name != name {
				h.bad("storage/"+chain+"/metric-stale-name", fmt.Sprintf("replica %s metric %d is named %q, the source says %q", rp.name, m.id, got.Name, name), x)
				continue
			}
			lm, _ := MetricMetaFromEvent(latest)
			if rp.chainC {
				g2, l2 := *got, *lm
				g2.Version, l2.Version = 0, 0
				if c20View(&g2, true) != c20View(&l2, true) {
					h.bad("storage/"+chain+"/metric-content", fmt.Sprintf("replica %s metric %d: %s, source's latest in compact form: %s", rp.name, m.id, c20View(&g2, true), c20View(&l2, true)), x)
				}
			} else {
				if got.Version != latest.Version {
					h.bad("storage/"+chain+"/metric-stale-version", fmt.Sprintf("replica %s metric %d has version %d, the source's latest is %d", rp.name, m.id, got.Version, latest.Version), x)
				} else if c20View(got, false) != c20View(lm, false) {
					h.bad("storage/"+chain+"/metric-content", fmt.Sprintf("replica %s metric %d: %s, source: %s", rp.name, m.id, c20View(got, false), c20View(lm, false)), x)
				}
				if got.Description != m.spec.Description || got.Disable != m.spec.Disable {
					h.bad("storage/"+chain+"/metric-content", fmt.Sprintf("replica %s metric %d does not carry the description/disable flag the source saved", rp.name, m.id), x)
				}
			}
			// group: enabled user group with the longest matching prefix
			wantG, best := c20WantGroups(refGroups, name)
			h.w.Count("group.final_checked", 1)
			if best != "" {
				h.w.Count("group.final_checked_user_group", 1)
			}
			if !c20Has(wantG, got.GroupID) && !groupAttr {
				h.bad("group/final-wrong", fmt.Sprintf("replica %s metric %d %q has group %d, want %v (longest enabled prefix %q)", rp.name, m.id, name, got.GroupID, wantG, best), x)
			}
			// name lookup
			h.w.Count("lookup.by_name_checked", 1)
			byName := ms.GetMetaMetricByName(name)
			byBytes := ms.GetMetaMetricByNameBytes([]byte(name))
			if byName != byBytes {
				h.bad("name-lookup/bytes-variant-differs", fmt.Sprintf("replica %s: GetMetaMetricByName and GetMetaMetricByNameBytes disagree for %q", rp.name, name), x)
			}
			reused := len(s.nameEver[name]) > 1
			switch {
			case byName == nil && reused:
				h.bad("name-lookup/stale-delete-after-rename", fmt.Sprintf("replica %s: metric %d holds the name %q (formerly held by another, renamed metric) but GetMetaMetricByName returns nil", rp.name, m.id, name),
					map[string]any{"replica": rp.name, "metric": m.id, "name": name})
			case byName == nil:
				h.bad("name-lookup/unreachable", fmt.Sprintf("replica %s: metric %d holds the name %q but GetMetaMetricByName returns nil", rp.name, m.id, name), map[string]any{"replica": rp.name, "metric": m.id, "name": name})
			case byName.MetricID != int32(m.id):
				h.bad("name-lookup/wrong-metric", fmt.Sprintf("replica %s: name %q belongs to metric %d, lookup returns metric %d (%q)", rp.name, name, m.id, byName.MetricID, byName.Name), map[string]any{"replica": rp.name, "metric": m.id, "name": name})
			case byName.Version != got.Version || byName.GroupID != got.GroupID:
				h.bad("name-lookup/stale-object", fmt.Sprintf("replica %s: lookup of %q returns version %d group %d, by id version %d group %d", rp.name, name, byName.Version, byName.GroupID, got.Version, got.GroupID), x)
			}
		}
		ms.mu.RLock()
		nByID := len(ms.metricsByID)
		type stale struct {
			name string
			id   int32
		}
		var stales []stale
		for n, m := range ms.metricsByName {
			cur := s.hist[c20Key{format.MetricEvent, int64(m.MetricID)}]
			if len(cur) == 0 || cur[len(cur)-1].Name != n {
				stales = append(stales, stale{n, m.MetricID})
			}
		}
		nList := len(ms.metricsByName)
		ms.mu.RUnlock()
		for _, st := range stales {
			if attr[c20Key{format.MetricEvent, int64(st.id)}] {
				continue
			}
			h.bad("name-lookup/stale-entry", fmt.Sprintf("replica %s: name %q resolves to metric %d which does not hold that name", rp.name, st.name, st.id), x)
		}
		if nByID != nMetrics && len(attr) == 0 {
			h.bad("storage/"+chain+"/extra-metric", fmt.Sprintf("replica %s storage has %d metrics, the source %d", rp.name, nByID, nMetrics), x)
		}
		if l := len(ms.GetMetaMetricList(true)); l != nList {
			h.bad("storage/"+chain+"/metric-list", fmt.Sprintf("replica %s: GetMetaMetricList returned %d metrics, name index has %d", rp.name, l, nList), x)
		}
		// groups and namespaces by id; by-name lookups of groups/namespaces are outside the
		// statement (it speaks of metric lookups): counted, not judged
		for _, g := range s.groups {
			if attr[c20Key{format.MetricsGroupEvent, g.id}] {
				continue
			}
			got := ms.GetGroup(int32(g.id))
			hist := s.hist[c20Key{format.MetricsGroupEvent, g.id}]
			if got == nil || got.Name != g.spec.Name || got.Disable != g.spec.Disable || got.Weight != g.spec.Weight || (!rp.chainC && got.Version != hist[len(hist)-1].Version) {
				h.bad("storage/"+chain+"/group-differs", fmt.Sprintf("replica %s group %d: got %+v, source %+v", rp.name, g.id, got, g.spec), x)
				continue
			}
			if bn := ms.GetGroupByName(g.spec.Name); bn == nil || bn.ID != int32(g.id) {
				h.r.NotJudged("group_by_name_lookup_wrong_after_rename_with_name_reuse", 1)
			}
		}
		for _, n := range s.nss {
			if attr[c20Key{format.NamespaceEvent, n.id}] {
				continue
			}
			got := ms.GetNamespace(int32(n.id))
			if got == nil || got.Name != n.spec.Name || got.Weight != n.spec.Weight || got.Disable != n.spec.Disable {
				h.bad("storage/"+chain+"/namespace-differs", fmt.Sprintf("replica %s namespace %d: got %+v, source %+v", rp.name, n.id, got, n.spec), x)
			}
			if bn := ms.GetNamespaceByName(n.spec.Name); bn == nil || bn.ID != int32(n.id) {
				h.bad("storage/"+chain+"/namespace-by-name", fmt.Sprintf("replica %s: namespace %q (never renamed) not found by name", rp.name, n.spec.Name), x)
			}
		}
		if !rp.chainC {
			for _, d := range s.dashes {
				hist := s.hist[c20Key{format.DashboardEvent, d.id}]
				got := ms.GetDashboardMeta(int32(d.id))
				if got == nil || got.Version != hist[len(hist)-1].Version || got.DeleteTime != d.deleted || got.Name != d.name {
					h.bad("storage/"+chain+"/dashboard-differs", fmt.Sprintf("replica %s dashboard %d: got %+v", rp.name, d.id, got), x)
				}
			}
			for _, id := range []int64{format.PrometheusConfigID, format.PrometheusGeneratedConfigID, format.KnownTagsConfigID} {
				hist := s.hist[c20Key{format.PromConfigEvent, id}]
				if len(hist) == 0 {
					continue
				}
				var got tlmetadata.Event
				switch id {
				case format.PrometheusConfigID:
					got = ms.PromConfig()
				case format.PrometheusGeneratedConfigID:
					got = ms.PromConfigGenerated()
				default:
					got = ms.KnownTags()
				}
				if got != hist[len(hist)-1] {
					h.bad("storage/"+chain+"/prom-config-differs", fmt.Sprintf("replica %s config %d: got version %d, latest %d", rp.name, id, got.Version, hist[len(hist)-1].Version), x)
				}
			}
		}
	}
	// ---- state hashes: replicas of the same journal are identical
	byChain := map[bool][]*c20Replica{}
	for _, rp := range h.reps {
		if !rp.observe && !attributed[rp] { // a replica with an attributed stale entity cannot have the common hash
			byChain[rp.chainC] = append(byChain[rp.chainC], rp)
		}
	}
	_, srcHash := s.j.VersionHash()
	for chainC, reps := range byChain {
		_, h0 := reps[0].j.VersionHash()
		for _, rp := range reps[1:] {
			_, h1 := rp.j.VersionHash()
			h.w.Count("hash.pairs_compared", 1)
			if h1 != h0 {
				h.bad("hash/replicas-differ", fmt.Sprintf("state hashes of %s (%s) and %s (%s) differ after full delivery", reps[0].name, h0, rp.name, h1), map[string]any{"compact_chain": chainC})
			}
		}
		if !chainC && h0 != srcHash {
			h.bad("hash/replicas-differ", fmt.Sprintf("state hash of %s (%s) differs from the source's (%s)", reps[0].name, h0, srcHash), nil)
		}
	}
}

// observeSwitcher: an agent that fetched from two aggregators' compact journals in turn.
// A compact journal keeps an older version number when a newer version is identical in
// compact form, so an agent that saw an intermediate version at the other aggregator can
// stay behind; the statement speaks of one chain: counted, not judged.
func (h *c20Hist) observeSwitcher(rp *c20Replica) {
	s := h.src
	h.w.Count("switching_agent.sync_points", 1)
	stale := 0
	for _, k := range s.keys {
		if k.typ == format.DashboardEvent || k.typ == format.PromConfigEvent {
			continue
		}
		hist := s.hist[k]
		got, ok := rp.j.journal[journalEventID{typ: k.typ, id: k.id}]
		if !ok {
			stale++
			continue
		}
		if k.typ == format.MetricEvent {
			gm, err := MetricMetaFromEvent(got.Event)
			lm, _ := MetricMetaFromEvent(hist[len(hist)-1])
			if err != nil {
				stale++
				continue
			}
			gm.Version, lm.Version = 0, 0
			if c20View(gm, true) != c20View(lm, true) {
				stale++
			}
		} else if !c20EqualNoVersion(got.Event, hist[len(hist)-1]) {
			stale++
		}
	}
	if stale > 0 {
		h.r.NotJudged("agent_switching_between_aggregators_ends_with_stale_entity", int64(stale))
		h.w.Count("switching_agent.sync_points_with_stale_entities", 1)
	}
}

// setup creates the source journal and the replicas of one history.
func (h *c20Hist) setup() (c, c2 *c20Replica) {
	rnd := h.rnd
	if h.files {
		h.dir = h.r.MkTmp("c20-")
	}
	sb := []byte(nil)
	sj, _ := LoadJournalFastSlice(&sb, data_model.JournalDDOSProtectionTimeout, false, nil)
	h.src = &c20Src{j: sj, buf: &sb, hist: map[c20Key][]tlmetadata.Event{}, nameEver: map[string]map[int64]struct{}{}}
	h.src.nextID[format.MetricEvent] = int64(rnd.IntN(1000))
	h.src.version = int64(rnd.IntN(50))
	mk := func(name string, compact, chainC bool, up *c20Replica) *c20Replica {
		rp := &c20Replica{name: name, compact: compact, chainC: chainC, up: up, src: h.src}
		if err := h.open(rp, nil); err != nil {
			panic(err)
		}
		h.reps = append(h.reps, rp)
		return rp
	}
	f := mk("F", false, false, nil)
	mk("F2", false, false, nil)
	c = mk("C", true, true, nil)
	c2 = mk("C2", true, true, nil) // compact journal of a second aggregator
	mk("AF", false, false, f)
	mk("A1", false, true, c)
	mk("A2", false, true, c)
	// an agent that asks a random aggregator each time: outside DESIGN's topology, observed only
	sw := mk("Asw", false, true, c)
	sw.observe = true
	return c, c2
}

// c20ScriptedRestart: the single-chain form of the same phenomenon, judged like every
// history: aggregator C saves, hands a rename to its agent, restarts from the (older) saved
// file, and the source renames the metric back.
func c20ScriptedRestart(r *verifkit.Run, w *verifkit.Worker) {
	h := &c20Hist{r: r, w: w, rnd: rand.New(rand.NewPCG(3, 4)), index: -2}
	c, _ := h.setup()
	defer func() {
		if p := recover(); p != nil {
			h.bad("panic/scripted-restart", fmt.Sprint(p), nil)
		}
	}()
	m := &c20Metric{id: 9, spec: format.MetricMetaValue{Name: "p_name"}}
	h.src.metrics = append(h.src.metrics, m)
	h.logOp("scripted: create metric 9 p_name, sync, save C")
	h.emitMetric(m)
	h.syncAll()
	h.save(c)
	h.logOp("scripted: rename metric 9 -> q_name, sync (agents hold q_name)")
	m.spec.Name = "q_name"
	h.emitMetric(m)
	h.syncAll()
	h.logOp("scripted: C restarts from the file saved before the rename")
	img := c.image()
	if err := h.open(c, img); err != nil {
		h.bad("reload/intact-error", err.Error(), nil)
	}
	h.logOp("scripted: rename metric 9 back -> p_name, final sync")
	m.spec.Name = "p_name"
	h.emitMetric(m)
	if h.syncAll() {
		h.checkConverged()
	}
}

// c20ScriptedSwitch: deterministic form of the one situation in which an agent that moves
// between aggregators stays behind: aggregator C never saw version B of a metric and skips
// version A' (identical to A in compact form), the agent saw B at aggregator C2 and then
// asks C only.  Outside the statement's single chain: recorded, not judged.
func c20ScriptedSwitch(r *verifkit.Run, w *verifkit.Worker) {
	h := &c20Hist{r: r, w: w, rnd: rand.New(rand.NewPCG(1, 2)), index: -1}
	c, c2 := h.setup()
	sw := h.reps[len(h.reps)-1]
	full := func(rp *c20Replica) {
		for i := 0; i < 100 && !h.deliver(rp, math.MaxInt, data_model.MaxJournalItemsSent, data_model.MaxJournalBytesSent); i++ {
		}
	}
	m := &c20Metric{id: 7, spec: format.MetricMetaValue{Name: "flip_flop"}}
	h.src.metrics = append(h.src.metrics, m)
	h.emitMetric(m) // A
	full(c)
	full(c2)
	sw.up = c
	full(sw)
	m.spec.Disable = true
	h.emitMetric(m) // B
	full(c2)
	sw.up = c2
	full(sw)
	m.spec.Disable = false
	h.emitMetric(m) // A again
	full(c)
	full(c2)
	sw.up = c
	full(sw)
	got, ok := sw.j.journal[journalEventID{typ: format.MetricEvent, id: 7}]
	if !ok {
		return
	}
	gm, err := MetricMetaFromEvent(got.Event)
	_, hc := c.j.VersionHash()
	_, hs := sw.j.VersionHash()
	if err == nil && gm.Disable {
		r.NotJudged("scripted_agent_moved_from_aggregator_C2_to_C_keeps_stale_metric_until_it_asks_C2_again", 1)
	}
	if hc != hs {
		r.NotJudged("scripted_agent_hash_differs_from_its_current_aggregator_after_full_delivery", 1)
	}
}

// ---------------------------------------------------------------- one history

func (h *c20Hist) run() {
	rnd := h.rnd
	defer func() {
		for _, rp := range h.reps {
			if rp.fp != nil {
				_ = rp.fp.Close()
			}
		}
		if h.dir != "" {
			_ = os.RemoveAll(h.dir)
		}
	}()
	defer func() {
		if p := recover(); p != nil {
			op := h.curOp
			if i := strings.IndexByte(op, ' '); i > 0 {
				op = op[:i]
			}
			h.bad("panic/"+op, fmt.Sprintf("panic: %v", p), map[string]any{"stack": string(debug.Stack())})
		}
	}()
	c, c2 := h.setup()

	steps := 40 + rnd.IntN(90)
	if h.huge {
		steps = 25 + rnd.IntN(30)
		h.hugeMetric()
	}
	if h.fat {
		steps = 30 + rnd.IntN(30)
		for i := 0; i < 3+rnd.IntN(4); i++ { // several >150 KiB metrics: saved journals span chunks
			if n, ok := h.freeMetricName(); ok {
				m := h.createMetric(n)
				if !strings.HasPrefix(m.spec.Description, "__whales_off") {
					m.spec.Description = h.fatDescription()
					h.editMetric(m, true)
				}
			}
		}
	}
	for step := 0; step < steps; step++ {
		switch x := rnd.IntN(100); {
		case x < 52:
			h.sourceOp()
		case x < 86:
			rp := h.reps[rnd.IntN(len(h.reps))]
			if rp.observe {
				rp.up = []*c20Replica{c, c2}[rnd.IntN(2)]
			}
			cut := 1 + rnd.IntN(5)
			if rnd.IntN(4) == 0 {
				cut = math.MaxInt
			}
			items, bytes := data_model.MaxJournalItemsSent, data_model.MaxJournalBytesSent
			if rnd.IntN(4) == 0 {
				items = 1 + rnd.IntN(3)
			}
			if rnd.IntN(6) == 0 {
				bytes = 1 + rnd.IntN(300)
			}
			if rnd.IntN(25) == 0 {
				h.failNext = true
			}
			h.logOp("deliver %s cut=%d items=%d bytes=%d fail=%v", rp.name, cut, items, bytes, h.failNext)
			h.abs.WriteString("d" + rp.name + ";")
			h.deliver(rp, cut, items, bytes)
			h.failNext = false
			h.checkJournalIntegrity(rp)
			h.checkGroupsOwnView(rp)
		case x < 96 && h.huge:
			if rnd.IntN(3) == 0 {
				h.hugeMetric()
			} else {
				h.sourceOp()
			}
		case x < 90:
			h.save(h.reps[rnd.IntN(len(h.reps))])
		case x < 96:
			h.reload(h.reps[rnd.IntN(len(h.reps))])
		default:
			h.logOp("sync")
			h.abs.WriteString("Y;")
			if h.syncAll() {
				h.checkConverged()
			}
		}
	}
	h.logOp("final-sync")
	if h.syncAll() {
		h.checkConverged()
		if h.fat {
			h.boundaryCuts()
		}
	}
	h.checkDumps()
}

// c20ChunkEnds walks the chunk headers of a saved image ([magic u32][size u32][body][hash 16]).
func c20ChunkEnds(img []byte) (ends []int) {
	for off := 0; off+8 <= len(img); {
		end := off + 8 + int(binary.LittleEndian.Uint32(img[off+4:])) + 16
		if end > len(img) {
			break
		}
		ends = append(ends, end)
		off = end
	}
	return ends
}

// boundaryCuts: a file cut exactly at a chunk boundary reads without any error, so only the
// version bookkeeping of load() tells that a tail was lost.  For journals spanning several
// chunks (ChunkedStorage2 flushes a chunk only after 512 KiB, hence the fat histories) every
// chunk boundary and boundary±1 is enumerated: a fresh replica is started from the cut image,
// fed from its upstream from whatever version it asks for, and judged like every other
// replica after the sync (entities = reference, VersionHash = never-truncated replica).
func (h *c20Hist) boundaryCuts() {
	base := h.reps
	var probes []*c20Replica
	for _, rp := range base {
		if rp.observe || (rp.name != "F" && rp.name != "C" && rp.name != "A1" && rp.name != "AF") {
			continue
		}
		h.save(rp)
		if rp.damaged || !rp.saved.valid || rp.saved.version != rp.j.currentVersion {
			continue
		}
		img := rp.image()
		ends := c20ChunkEnds(img)
		if len(ends) < 2 || ends[len(ends)-1] != len(img) {
			continue
		}
		h.w.Count("boundary_cuts.images", 1)
		var cuts []int
		for i, e := range ends {
			if i+1 < len(ends) {
				cuts = append(cuts, e-1, e, e+1)
			} else {
				cuts = append(cuts, e-1)
			}
		}
		for _, cut := range cuts {
			atBoundary := false
			for _, e := range ends {
				atBoundary = atBoundary || e == cut
			}
			pr := &c20Replica{name: fmt.Sprintf("%s.cut%d", rp.name, cut), compact: rp.compact, chainC: rp.chainC, up: rp.up, src: rp.src}
			err := h.open(pr, img[:cut])
			got := c20Ordered(pr.j)
			h.logOp("restart %s from image of %s cut at %d of %d (chunk ends %v) -> version=%d loaderVersion=%d entries=%d err=%v", pr.name, rp.name, cut, len(img), ends, pr.j.currentVersion, pr.j.loaderVersion, len(got), err != nil)
			if atBoundary {
				h.w.Count("boundary_cuts.exactly_at_chunk_boundary", 1)
				if err != nil {
					h.r.NotJudged("load_error_for_file_cut_at_chunk_boundary", 1)
				}
			} else {
				h.w.Count("boundary_cuts.boundary_plus_minus_1", 1)
			}
			if len(got) > len(rp.saved.events) {
				h.bad("reload/not-a-prefix", fmt.Sprintf("%s: %d events loaded, %d were saved", pr.name, len(got), len(rp.saved.events)), map[string]any{"replica": pr.name})
			}
			for i := range got {
				if i < len(rp.saved.events) && got[i] != rp.saved.events[i] {
					h.bad("reload/not-a-prefix", fmt.Sprintf("%s: event %d after reload differs from the saved one", pr.name, i), map[string]any{"replica": pr.name})
					break
				}
			}
			if len(got) < len(rp.saved.events) && pr.j.loaderVersion > pr.j.currentVersion {
				h.bad("reload/loader-version-trusted-after-damage", fmt.Sprintf("%s: image cut at %d (chunk ends %v) gave %d of %d events but loaderVersion %d > currentVersion %d: the lost events would never be requested again",
					pr.name, cut, ends, len(got), len(rp.saved.events), pr.j.loaderVersion, pr.j.currentVersion), map[string]any{"replica": pr.name})
			}
			if len(got) > 0 && len(got) < len(rp.saved.events) {
				h.w.Count("boundary_cuts.nonempty_strict_prefix_loaded", 1)
			}
			probes = append(probes, pr)
		}
	}
	if len(probes) == 0 {
		return
	}
	for k := h.rnd.IntN(4); k > 0; k-- { // the source moves on while the replicas are down
		h.sourceOp()
	}
	h.logOp("sync after boundary cuts")
	h.reps = append(append([]*c20Replica(nil), base...), probes...)
	defer func() {
		for _, pr := range probes {
			if pr.fp != nil {
				_ = pr.fp.Close()
				pr.fp = nil
			}
		}
		h.reps = base
	}()
	if h.syncAll() {
		h.checkConverged()
		h.w.Count("boundary_cuts.judged_after_sync", int64(len(probes)))
	}
}

// checkDumps: every dump written on the journal-dump marker is named <prefix>-<version>-<hash>.dump;
// loading it must give a journal with exactly that version and state hash.
func (h *c20Hist) checkDumps() {
	if h.dir == "" {
		return
	}
	files, _ := filepath.Glob(filepath.Join(h.dir, "dump-*.dump"))
	for _, fn := range files {
		base := strings.TrimSuffix(filepath.Base(fn), ".dump")
		parts := strings.Split(base, "-")
		if len(parts) < 4 {
			continue
		}
		wantHash, wantVer := parts[len(parts)-1], parts[len(parts)-2]
		fp, err := os.OpenFile(fn, os.O_RDWR, 0o666)
		if err != nil {
			continue
		}
		j, lerr := LoadJournalFastFile(fp, data_model.JournalDDOSProtectionTimeout, false, nil)
		_ = fp.Close()
		h.w.Count("dumps_checked", 1)
		if lerr != nil || fmt.Sprint(j.currentVersion) != wantVer || j.stateHashStr != wantHash {
			h.bad("dump/reload-differs", fmt.Sprintf("dump %s loads to version %d hash %s (err %v)", filepath.Base(fn), j.currentVersion, j.stateHashStr, lerr), nil)
		}
	}
}

func TestVerifC20(t *testing.T) {
	r := verifkit.Start(t, "C20", "metajournal")
	defer r.Finish()
	log.SetOutput(io.Discard)
	defer log.SetOutput(os.Stderr)
	r.SetRule("one case = one random history of source edits (metric create/edit/rename incl. reuse of freed names, groups with overlapping prefixes created/renamed/toggled, namespaces, dashboards, prom configs, the journal-dump marker) interleaved with partial deliveries (random item/byte limits, cut batches, loader errors) to 7 judged real replicas (2 plain, 2 compact, 3 agents; an eighth agent that switches between the two compact journals is observed only), Save and restart from intact or truncated images (slice- and file-backed, 5% with >512 KiB journals spanning several chunks), judged at every sync point. Non-trivial = at least one rename, one partial delivery and one group change; distinct = distinct operation sequences.")
	r.Assume("source events look like the metadata engine's journal rows: FieldMask has only the namespace bit, no Metadata; names are unique per entity type at the source; namespaces are never renamed")
	r.Assume("events cross every hop TL-encoded, as over RPC")
	n := r.N(1000, 20000)
	first := 0
	if p := os.Getenv("VERIF_REPLAY"); p != "" {
		var rep struct {
			Witness struct {
				Hist int `json:"hist"`
			} `json:"witness"`
		}
		if b, err := os.ReadFile(p); err == nil && json.Unmarshal(b, &rep) == nil {
			first, n = rep.Witness.Hist, rep.Witness.Hist+1
		}
	}
	workers := 8
	if r.Thorough() {
		workers = 16
	}
	if n-first < workers {
		workers = 1
	}
	r.Parallel(1, "scripted", func(w *verifkit.Worker) { c20ScriptedSwitch(r, w); c20ScriptedRestart(r, w) })
	seed := r.SubSeed("hist")
	r.Parallel(workers, "hist", func(w *verifkit.Worker) {
		for i := first + w.Index; i < n; i += workers {
			rnd := rand.New(rand.NewPCG(seed, uint64(i)))
			h := &c20Hist{r: r, w: w, rnd: rnd, index: i}
			h.fat = rnd.IntN(20) == 0
			h.files = rnd.IntN(12) == 0
			h.huge = !h.fat && !h.files && rnd.IntN(25) == 0
			h.run()
			w.Count("histories", 1)
			if h.fat {
				w.Count("histories.fat", 1)
			}
			if h.huge {
				w.Count("histories.with_events_at_response_limit", 1)
			}
			if h.files {
				w.Count("histories.file_backed", 1)
			}
			w.Count("sync_points", int64(h.nSync))
			if h.nReloadPrefix > 0 {
				w.Count("histories.with_truncated_nonempty_reload", 1)
			}
			if i < 3 {
				ops := h.ops
				if len(ops) > 60 {
					ops = ops[:60]
				}
				r.Sample(map[string]any{"hist": i, "first_ops": ops})
			}
			if h.nSync > 0 {
				w.Case(h.nRename > 0 && h.nPartial > 0 && h.nGroupChange > 0, h.abs.String())
			}
		}
	})
}
