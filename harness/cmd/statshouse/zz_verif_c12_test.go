//go:build verif

package main

// C12 — ingestion accepts only valid events and accounts for every rejected one.
//
// Workload: generated events (counters, values, histograms, uniques, tags, timestamps;
// boundary and non-finite numbers; valid, over-long, non-UTF-8, unknown, draft, legacy,
// duplicate, raw and raw64 tags) against metric descriptions with raw tags, percentiles,
// low resolution, disabled / unknown / built-in metrics, through the real
// worker.HandleMetrics with a real agent (agent.MakeAgent, never Run).
// Observation: the agent's shard buckets (exported Shard.SuperQueue) are diffed before
// and after every single call: rows of the metrics and rows of both ingestion-status
// metrics.
// Oracle: a validity predicate and a weighting reference written from the statement.

import (
	"fmt"
	"math"
	"math/rand/v2"
	"regexp"
	"sort"
	"strconv"
	"strings"
	"testing"
	"time"
	"unicode/utf8"

	"github.com/VKCOM/statshouse/internal/agent"
	"github.com/VKCOM/statshouse/internal/data_model"
	"github.com/VKCOM/statshouse/internal/data_model/gen2/tl"
	"github.com/VKCOM/statshouse/internal/data_model/gen2/tlmetadata"
	"github.com/VKCOM/statshouse/internal/data_model/gen2/tlstatshouse"
	"github.com/VKCOM/statshouse/internal/format"
	"github.com/VKCOM/statshouse/internal/metajournal"
	"github.com/VKCOM/statshouse/internal/pcache"
	"github.com/VKCOM/statshouse/internal/zzverif/verifkit"
)

// ------------------------------------------------------------------ metric descriptions

const (
	c12IdxA   = 1 // plain
	c12IdxR   = 2 // raw, carries the per-event row id
	c12IdxR64 = 3 // raw64: low half here, high half in 4
	c12IdxB   = 5 // plain
	c12IdxRR  = 6 // raw
)

type c12MetaSpec struct {
	id         int32
	name       string
	kind       string
	resolution int
	disable    bool
}

var c12Metas = []c12MetaSpec{
	{5001, "verif_m", format.MetricKindMixed, 1, false},
	{5002, "verif_p", format.MetricKindMixedPercentiles, 1, false},
	{5003, "verif_res", format.MetricKindMixed, 5, false},
	{5004, "verif_vp", format.MetricKindValuePercentiles, 15, false},
	{5005, "verif_off", format.MetricKindMixed, 1, true},
}

func c12MakeStorage(t testing.TB) *metajournal.MetricsStorage {
	ms := metajournal.MakeMetricsStorage(nil)
	var evs []tlmetadata.Event
	for i, s := range c12Metas {
		m := format.MetricMetaValue{MetricID: s.id, Name: s.name, Kind: s.kind, Disable: s.disable, Resolution: s.resolution, StringTopName: "st",
			Tags: []format.MetricMetaTag{{}, {Name: "a"}, {Name: "r", RawKind: "int"}, {Name: "r64", RawKind: "int64"}, {}, {Name: "b"}, {Name: "rr", RawKind: "uint"}},
			TagsDraft: map[string]format.MetricMetaTag{"dr": {Name: "dr"}}}
		if err := m.RestoreCachedInfo(); err != nil {
			t.Fatalf("c12: meta %s: %v", s.name, err)
		}
		d, err := m.MarshalBinary()
		if err != nil {
			t.Fatalf("c12: meta %s: %v", s.name, err)
		}
		evs = append(evs, tlmetadata.Event{Id: int64(s.id), Name: s.name, EventType: format.MetricEvent, Version: int64(i + 1), Data: string(d)})
	}
	ms.ApplyEvent(evs)
	for _, s := range c12Metas {
		if mv := ms.GetMetaMetricByName(s.name); mv == nil || mv.MetricID != s.id || mv.Disable != s.disable {
			t.Fatalf("c12: metric %s not in storage as described", s.name)
		}
	}
	return ms
}

// values the agent's mapping cache knows: such tag values become integers in the row key
var c12Mapped = map[string]int32{"production": 7701, "ok": 7702, "v1": 7703}

// c12Place says how a normalized plain tag value appears in a row key.
func c12Place(norm string) (int32, string) {
	if id, ok := c12Mapped[norm]; ok {
		return id, ""
	}
	return 0, norm
}

func c12NewAgent(t testing.TB, ms *metajournal.MetricsStorage) (*agent.Agent, *worker) {
	cfg := agent.DefaultConfig()
	gc := tlstatshouse.GetConfigResult3{Addresses: []string{"", "", ""}, ShardByMetricCount: 1}
	mc := pcache.NewMappingsCache(data_model.NewChunkedStorageNop(), 1<<20, 86400)
	var pairs []pcache.MappingPair
	for s, id := range c12Mapped {
		pairs = append(pairs, pcache.MappingPair{Str: s, Value: id})
	}
	sort.Slice(pairs, func(i, j int) bool { return pairs[i].Value < pairs[j].Value })
	mc.AddValues(uint32(time.Now().Unix()), pairs)
	a, err := agent.MakeAgent("tcp4", "", "", nil, cfg, "verif-host", format.TagValueIDComponentAgent, ms,
		mc, nil, nil,
		func(string, ...interface{}) {}, nil, &gc, nil)
	if err != nil {
		t.Fatalf("c12: MakeAgent: %v", err)
	}
	return a, startWorker(a, ms, nil, nil)
}

// ------------------------------------------------------------------ observation

type c12Row struct {
	items                    int
	count, sum, sumsq        float64
	min, max                 float64
	set                      bool
	uniq                     int
	digestW                  float64
	hasDigest                bool
	tags                     [format.MaxTags]int32
	stags                    [format.MaxTags]string
	tops                     string // string-top values seen, sorted
	metric                   int32
	tagsDifferBetweenItems   bool
	minCentroid, maxCentroid float64
}

type c12RowKey struct {
	metric int32
	id     int32
}

type c12StatusKey struct {
	statusMetric int32 // which of the two status metrics
	metric       int32 // tag 1: metric the status is about
	status       int32 // tag 2
	tagKey       int32 // tag 3
	str          string // the string the record carries (string-top key of the status row), "" for the plain part
}

type c12Snap struct {
	rows   map[c12RowKey]c12Row
	status map[c12StatusKey]float64
}

func c12IsOurMetric(id int32) bool { return id >= 5001 && id <= 5005 }

func c12Take(a *agent.Agent) c12Snap {
	s := c12Snap{rows: map[c12RowKey]c12Row{}, status: map[c12StatusKey]float64{}}
	for _, sh := range a.Shards {
		for _, b := range sh.SuperQueue {
			if b == nil {
				continue
			}
			for _, it := range b.MultiItems {
				switch {
				case c12IsOurMetric(it.Key.Metric):
					k := c12RowKey{it.Key.Metric, it.Key.Tags[c12IdxR]}
					row := s.rows[k]
					add := func(mv *data_model.MultiValue) {
						v := mv.Value
						row.count += v.Count()
						row.sum += v.ValueSum
						row.sumsq += v.ValueSumSquare
						if v.ValueSet {
							if !row.set || v.ValueMin < row.min {
								row.min = v.ValueMin
							}
							if !row.set || v.ValueMax > row.max {
								row.max = v.ValueMax
							}
							row.set = true
						}
						row.uniq += mv.HLL.ItemsCount()
						if mv.ValueTDigest != nil {
							row.hasDigest = true
							for _, c := range mv.ValueTDigest.Centroids() {
								row.digestW += c.Weight
							}
						}
					}
					add(&it.Tail)
					var tops []string
					for tv, mv := range it.Top {
						add(mv)
						tops = append(tops, fmt.Sprintf("%d/%q", tv.I, tv.S))
					}
					sort.Strings(tops)
					if row.items > 0 && (row.tags != it.Key.Tags || row.stags != it.Key.STags) {
						row.tagsDifferBetweenItems = true
					}
					row.items++
					row.tags, row.stags, row.metric = it.Key.Tags, it.Key.STags, it.Key.Metric
					for si := range row.stags {
						row.stags[si] = strings.Clone(row.stags[si]) // the snapshot must not share memory with what it observes
					}
					row.tops += strings.Join(tops, ",")
					s.rows[k] = row
				case it.Key.Metric == format.BuiltinMetricIDIngestionStatus || it.Key.Metric == format.BuiltinMetricIDIngestionStatusNoShard:
					if n := it.Tail.Value.Count(); n != 0 {
						s.status[c12StatusKey{it.Key.Metric, it.Key.Tags[1], it.Key.Tags[2], it.Key.Tags[3], ""}] += n
					}
					for tv, mv := range it.Top {
						str := strings.Clone(tv.S)
						if tv.I != 0 {
							str = "#" + strconv.Itoa(int(tv.I)) + str
						}
						s.status[c12StatusKey{it.Key.Metric, it.Key.Tags[1], it.Key.Tags[2], it.Key.Tags[3], "=" + str}] += mv.Value.Count()
					}
				}
			}
		}
	}
	return s
}

var c12Warnings = map[int32]bool{
	format.TagValueIDSrcIngestionStatusWarnMapTagNameNotFound: true, format.TagValueIDSrcIngestionStatusWarnMapInvalidRawTagValue: true,
	format.TagValueIDSrcIngestionStatusWarnDeprecatedKeyName: true, format.TagValueIDSrcIngestionStatusWarnMapTagSetTwice: true,
	format.TagValueIDSrcIngestionStatusWarnTimestampClampedFuture: true, format.TagValueIDSrcIngestionStatusWarnMapTagNameFoundDraft: true,
	format.TagValueIDSrcIngestionStatusWarnTimestampClampedPast: true, format.TagValueIDSrcIngestionStatusWarnTimestampClampedFutureAgg: true,
}

// ------------------------------------------------------------------ generator + reference

var c12Numbers = []float64{0, math.Copysign(0, -1), 1, 2, 0.5, 1e-300, 5e-324, 1e-7, 100500.1, 16777216, 1e30,
	math.MaxFloat32, math.MaxFloat32 * (1 - 1e-9), math.MaxFloat32 * (1 + 1e-9), math.Nextafter(math.MaxFloat32, math.Inf(1)), 2 * math.MaxFloat32, math.MaxFloat64,
	-math.MaxFloat32, -math.MaxFloat32 * (1 + 1e-9), math.Nextafter(-math.MaxFloat32, math.Inf(-1)), -math.MaxFloat64, -1, -0.5, -1e-300,
	math.NaN(), math.Inf(1), math.Inf(-1)}

func c12Num(rnd *rand.Rand, plain bool) float64 {
	switch rnd.IntN(8) {
	case 0:
		if !plain {
			return c12Numbers[rnd.IntN(len(c12Numbers))]
		}
	case 1:
		return 0
	case 2:
		return float64(rnd.IntN(5) + 1)
	}
	v := float64(rnd.IntN(4000)) / 8
	if !plain && rnd.IntN(6) == 0 {
		v = -v
	}
	return v
}

type c12Tag struct {
	name, value []byte
}

type c12Event struct {
	metric     c12MetaSpec
	metricName []byte
	id         int32
	hasCounter bool
	counter    float64
	values     []float64
	hist       [][2]float64
	uniq       []int64
	tags       []c12Tag
	ts         uint32
	// reference
	reasons       map[int32]bool // applicable rejection reasons
	notJudged     string         // statement silent: class name
	wantTags      map[int32]int32
	wantSTags     map[int32]string
	tagsJudgeable bool
	top           string
	builtin       bool
}

var c12BuiltinNames []string

func c12BuiltinNotReceivable() []string {
	if c12BuiltinNames == nil {
		for name, m := range format.BuiltinMetricByName {
			if !m.BuiltinAllowedToReceive {
				c12BuiltinNames = append(c12BuiltinNames, name)
			}
		}
		sort.Strings(c12BuiltinNames)
	}
	return c12BuiltinNames
}

var c12DecimalRe = regexp.MustCompile(`^-?[0-9]+$`)

func c12Raw32(s string) (int32, bool) {
	if !c12DecimalRe.MatchString(s) || len(s) > 30 {
		return 0, false
	}
	v, err := strconv.ParseInt(s, 10, 64)
	if err != nil || v < math.MinInt32 || v > math.MaxUint32 {
		return 0, false
	}
	return int32(uint32(uint64(v))), true
}

func c12Raw64(s string) (lo, hi int32, ok bool) {
	if !c12DecimalRe.MatchString(s) || len(s) > 30 {
		return 0, 0, false
	}
	var u uint64
	if strings.HasPrefix(s, "-") {
		v, err := strconv.ParseInt(s, 10, 64)
		if err != nil {
			return 0, 0, false
		}
		u = uint64(v)
	} else {
		v, err := strconv.ParseUint(s, 10, 64)
		if err != nil {
			return 0, 0, false
		}
		u = v
	}
	return int32(uint32(u)), int32(uint32(u >> 32)), true
}

var c12PlainValues = []string{"ok", "production", "v1", "", "  padded  ", "two  spaces", "tab\there", strings.Repeat("x", 127), strings.Repeat("y", 128), strings.Repeat("z", 129), strings.Repeat("long ", 60),
	"été", "日本語", "\U0001F600", "line\nbreak", "nul\x00byte", "​zw", " nbsp"}
var c12BadUTF8 = []string{"\xff\xfe", "ab\xc3", "\xed\xa0\x80", "ok\x80", "\xc0\xaf"}
var c12RawValues = []string{"0", "1", "-1", "42", "2147483647", "2147483648", "4294967295", "4294967296", "-2147483648", "-2147483649", "007", "-0", "abc", "1.5", "1e3", " 1", "0x10", "", "99999999999999999999",
	"9223372036854775807", "9223372036854775808", "18446744073709551615", "18446744073709551616", "-9223372036854775808", "-9223372036854775809"}

// c12Gen draws one event and computes what the statement says about it.
func c12Gen(rnd *rand.Rand, seq int, id int32, now uint32) *c12Event {
	e := &c12Event{id: id, reasons: map[int32]bool{}, wantTags: map[int32]int32{}, wantSTags: map[int32]string{}, tagsJudgeable: true}
	plain := rnd.IntN(3) == 0 // a third of the events have tame numbers, so that tag handling is judged on accepted events too
	// ---- metric
	switch c := rnd.IntN(40); {
	case c == 0:
		e.metric, e.metricName = c12Metas[4], []byte("verif_off")
		e.reasons[format.TagValueIDSrcIngestionStatusErrMetricDisabled] = true
	case c == 1:
		e.metricName = []byte("no_such_metric")
		e.reasons[format.TagValueIDSrcIngestionStatusErrMetricNotFound] = true
	case c == 2:
		e.metricName = []byte("bad\xffname")
		e.reasons[format.TagValueIDSrcIngestionStatusErrMetricNameEncoding] = true
	case c == 3:
		names := c12BuiltinNotReceivable()
		e.metricName = []byte(names[rnd.IntN(len(names))])
		e.reasons[format.TagValueIDSrcIngestionStatusErrMetricBuiltin] = true
		// some built-in metrics have no shard in this agent's configuration; the agent then names
		// that ("sharding failed") instead of "built-in".  Both are true of the event.
		e.reasons[format.TagValueIDSrcIngestionStatusErrShardingFailed] = true
		e.builtin = true
	default:
		e.metric = c12Metas[rnd.IntN(4)]
		e.metricName = []byte(e.metric.name)
	}
	// ---- numbers
	if seq%2 == 0 {
		// systematic half: every combination of the event's parts in turn — counter
		// {absent, 0, positive} × values {none, some} × histogram {none, zero weights only,
		// positive weights} × uniques {none, some} = 36 — so that each validity rule and each
		// weighting branch meets every other part present and absent.  Numbers are tame in
		// three of four such events so that the combination alone decides validity.
		combo := (seq / 2) % 36
		if rnd.IntN(4) != 0 {
			plain = true
		}
		switch combo % 3 {
		case 1:
			e.hasCounter, e.counter = true, 0
		case 2:
			e.hasCounter, e.counter = true, float64(1+rnd.IntN(9))
			if !plain {
				e.counter = c12Num(rnd, false)
			}
		}
		combo /= 3
		if combo%2 == 1 {
			for i, n := 0, 1+rnd.IntN(3); i < n; i++ {
				e.values = append(e.values, c12Num(rnd, plain))
			}
		} else if rnd.IntN(2) == 0 {
			e.values = []float64{} // present but empty
		}
		combo /= 2
		switch combo % 3 {
		case 0:
			if rnd.IntN(2) == 0 {
				e.hist = [][2]float64{}
			}
		case 1:
			for i, n := 0, 1+rnd.IntN(2); i < n; i++ {
				e.hist = append(e.hist, [2]float64{c12Num(rnd, plain), 0})
			}
		case 2:
			for i, n := 0, 1+rnd.IntN(3); i < n; i++ {
				wgt := float64(1 + rnd.IntN(5))
				if !plain {
					wgt = c12Num(rnd, false)
				}
				e.hist = append(e.hist, [2]float64{c12Num(rnd, plain), wgt})
			}
		}
		combo /= 3
		if combo%2 == 1 {
			for i, n := 0, 1+rnd.IntN(4); i < n; i++ {
				e.uniq = append(e.uniq, int64(rnd.IntN(50))-5)
			}
		} else if rnd.IntN(2) == 0 {
			e.uniq = []int64{}
		}
	} else if rnd.IntN(3) != 0 {
		e.hasCounter, e.counter = true, c12Num(rnd, plain)
	}
	switch c := rnd.IntN(7); {
	case seq%2 == 0:
		// parts already chosen above
	case c <= 1:
		for i, n := 0, 1+rnd.IntN(4); i < n; i++ {
			e.values = append(e.values, c12Num(rnd, plain))
		}
	case c == 2:
		for i, n := 0, 1+rnd.IntN(3); i < n; i++ {
			e.hist = append(e.hist, [2]float64{c12Num(rnd, plain), c12Num(rnd, plain)})
		}
		switch rnd.IntN(4) {
		case 0:
			e.values = append(e.values, c12Num(rnd, plain))
		case 1:
			if !plain {
				e.uniq = append(e.uniq, int64(rnd.IntN(9))) // histogram + uniques, no plain values
			}
		}
	case c == 3:
		for i, n := 0, 1+rnd.IntN(4); i < n; i++ {
			e.uniq = append(e.uniq, int64(rnd.IntN(50))-5)
		}
		if rnd.IntN(4) == 0 {
			e.uniq = append(e.uniq, []int64{math.MaxInt64, math.MinInt64, 1 << 53}[rnd.IntN(3)])
		}
	case c == 4:
		if !plain {
			e.values = append(e.values, c12Num(rnd, plain))
			e.uniq = append(e.uniq, 7)
		}
	case c == 5:
		for i, n := 0, 1+rnd.IntN(3); i < n; i++ { // identical values: no digest needed
			e.values = append(e.values, 3.5)
		}
	}
	cnt := func(f float64) {
		switch {
		case math.IsNaN(f):
			e.reasons[format.TagValueIDSrcIngestionStatusErrNanInfCounter] = true
		case math.IsInf(f, 0):
			e.reasons[format.TagValueIDSrcIngestionStatusErrNanInfCounter] = true
			e.reasons[format.TagValueIDSrcIngestionStatusErrTooBigCounter] = true
			if f < 0 {
				e.reasons[format.TagValueIDSrcIngestionStatusErrNegativeCounter] = true
			}
		case f < 0:
			e.reasons[format.TagValueIDSrcIngestionStatusErrNegativeCounter] = true
			if f < -math.MaxFloat32 {
				e.reasons[format.TagValueIDSrcIngestionStatusErrTooBigCounter] = true
			}
		case f > math.MaxFloat32:
			e.reasons[format.TagValueIDSrcIngestionStatusErrTooBigCounter] = true
		}
	}
	val := func(f float64) {
		switch {
		case math.IsNaN(f):
			e.reasons[format.TagValueIDSrcIngestionStatusErrNanInfValue] = true
		case math.IsInf(f, 0):
			e.reasons[format.TagValueIDSrcIngestionStatusErrNanInfValue] = true
			e.reasons[format.TagValueIDSrcIngestionStatusErrTooBigValue] = true
		case math.Abs(f) > math.MaxFloat32:
			e.reasons[format.TagValueIDSrcIngestionStatusErrTooBigValue] = true
		}
	}
	if len(e.values)+len(e.hist) != 0 && len(e.uniq) != 0 {
		e.reasons[format.TagValueIDSrcIngestionStatusErrValueUniqueBothSet] = true
	}
	if len(e.values)+len(e.hist)+len(e.uniq) == 0 && (!e.hasCounter || e.counter == 0) {
		e.reasons[format.TagValueIDSrcIngestionStatusErrZeroCounter] = true
	}
	if e.hasCounter {
		cnt(e.counter)
	}
	for _, v := range e.values {
		val(v)
	}
	for _, h := range e.hist {
		val(h[0])
		cnt(h[1])
	}
	// ---- timestamp
	switch rnd.IntN(8) {
	case 0:
		e.ts = now - uint32(rnd.IntN(20))
	case 1:
		e.ts = now + uint32(rnd.IntN(4))
	case 2:
		e.ts = []uint32{1, now - 100000, now + 1000, math.MaxUint32}[rnd.IntN(4)]
	}
	// ---- tags
	set := map[int32]bool{}
	put := func(idx int32, i int32, s string) {
		if set[idx] {
			e.tagsJudgeable = false // set twice: which one wins is not in the statement
		}
		set[idx] = true
		e.wantTags[idx], e.wantSTags[idx] = i, s
	}
	addTag := func(name, value string) { e.tags = append(e.tags, c12Tag{[]byte(name), []byte(value)}) }
	plainValue := func() (string, bool) { // value, valid
		switch rnd.IntN(12) {
		case 0:
			return c12BadUTF8[rnd.IntN(len(c12BadUTF8))], false
		case 1:
			if !plain {
				return "x\x39\x02\x58\x56y", false // the "corrupted balancer value" marker
			}
		}
		return c12PlainValues[rnd.IntN(len(c12PlainValues))], true
	}
	known := func(name string, idx int32) {
		v, ok := plainValue()
		addTag(name, v)
		if !ok {
			if utf8.ValidString(v) {
				e.reasons[format.TagValueIDSrcIngestionStatusErrMapTagValueCorrupted] = true
			} else {
				e.reasons[format.TagValueIDSrcIngestionStatusErrMapTagValueEncoding] = true
			}
			return
		}
		norm, err := format.AppendValidStringValue(nil, []byte(v))
		if err != nil {
			e.tagsJudgeable = false
			return
		}
		pi, ps := c12Place(string(norm))
		put(idx, pi, ps)
	}
	e.tags = nil
	idPos := rnd.IntN(3)
	nExtra := rnd.IntN(4)
	if rnd.IntN(10) == 0 {
		nExtra = 6 + rnd.IntN(6)
	}
	for k := 0; k <= nExtra; k++ {
		if k == idPos || (k == nExtra && !set[c12IdxR]) {
			addTag([]string{"r", "2"}[rnd.IntN(2)], strconv.Itoa(int(id)))
			put(c12IdxR, id, "")
			if k == idPos {
				continue
			}
		}
		switch rnd.IntN(16) {
		case 0, 1:
			known("a", c12IdxA)
		case 2:
			known("b", c12IdxB)
		case 3:
			known("1", c12IdxA) // canonical id of "a"
		case 4:
			known("key1", c12IdxA) // deprecated name of tag 1
		case 5: // raw
			v := c12RawValues[rnd.IntN(len(c12RawValues))]
			addTag("rr", v)
			v = c12Norm(v) // every value of a known tag is normalized (trimmed) before it is interpreted
			if v == "" {
				put(c12IdxRR, 0, "")
			} else if x, ok := c12Raw32(v); ok {
				put(c12IdxRR, x, "")
			} // else: warning, tag stays unset (design: not a rejection)
		case 6: // raw64
			v := c12RawValues[rnd.IntN(len(c12RawValues))]
			addTag("r64", v)
			v = c12Norm(v)
			if v == "" {
				put(c12IdxR64, 0, "")
			} else if lo, hi, ok := c12Raw64(v); ok {
				put(c12IdxR64, lo, "")
				put(c12IdxR64+1, hi, "")
			}
		case 7: // draft tag: known to the description but not active
			v, ok := plainValue()
			addTag("dr", v)
			if !ok && e.notJudged == "" {
				e.notJudged = "invalid-value-of-a-tag-that-is-not-in-the-description"
			}
		case 8: // unknown tag
			v, ok := plainValue()
			addTag([]string{"zz", "unknown_tag", "48", "key99", "A"}[rnd.IntN(5)], v)
			if !ok && e.notJudged == "" {
				e.notJudged = "invalid-value-of-a-tag-that-is-not-in-the-description"
			}
		case 9: // tag name that is not UTF-8
			addTag(c12BadUTF8[rnd.IntN(len(c12BadUTF8))], "v")
			e.reasons[format.TagValueIDSrcIngestionStatusErrMapTagNameEncoding] = true
		case 10: // string top
			v, ok := plainValue()
			addTag([]string{"_s", "st", "47"}[rnd.IntN(3)], v)
			if !ok {
				if utf8.ValidString(v) {
					e.reasons[format.TagValueIDSrcIngestionStatusErrMapTagValueCorrupted] = true
				} else {
					e.reasons[format.TagValueIDSrcIngestionStatusErrMapTagValueEncoding] = true
				}
			} else if norm, err := format.AppendValidStringValue(nil, []byte(v)); err == nil {
				if set[format.StringTopTagIndexV3] {
					e.tagsJudgeable = false
				}
				set[format.StringTopTagIndexV3] = true
				e.top = string(norm)
			}
		case 11: // host
			v, ok := plainValue()
			addTag("_h", v)
			if !ok {
				if utf8.ValidString(v) {
					e.reasons[format.TagValueIDSrcIngestionStatusErrMapTagValueCorrupted] = true
				} else {
					e.reasons[format.TagValueIDSrcIngestionStatusErrMapTagValueEncoding] = true
				}
			}
		case 12: // environment
			v, ok := plainValue()
			addTag([]string{"0", "key0"}[rnd.IntN(2)], v)
			if !ok {
				if utf8.ValidString(v) {
					e.reasons[format.TagValueIDSrcIngestionStatusErrMapTagValueCorrupted] = true
				} else {
					e.reasons[format.TagValueIDSrcIngestionStatusErrMapTagValueEncoding] = true
				}
			} else if norm, err := format.AppendValidStringValue(nil, []byte(v)); err == nil {
				pi, ps := c12Place(string(norm))
				put(0, pi, ps)
			}
		}
	}
	if e.metric.id == 0 || e.metric.disable {
		// no description is consulted for such metrics: nothing about tags applies
		for k := range e.reasons {
			if k == format.TagValueIDSrcIngestionStatusErrMapTagNameEncoding || k == format.TagValueIDSrcIngestionStatusErrMapTagValueEncoding || k == format.TagValueIDSrcIngestionStatusErrMapTagValueCorrupted {
				delete(e.reasons, k)
			}
		}
	}
	return e
}

// c12Arena is the one buffer all strings of consecutive events live in, like the
// receive-side buffers of a receiver goroutine: every slot leaves room for the in-place
// rewriting the mapper does (hex form of a bad string is twice as long), and the whole
// buffer is overwritten after every call.
type c12Arena struct {
	buf      []byte
	off      int
	overflow int
}

func (a *c12Arena) put(s []byte) []byte {
	slot := max(2*len(s)+16, 32)
	if a.off+slot > len(a.buf) {
		a.overflow++
		return append(make([]byte, 0, slot), s...)
	}
	b := a.buf[a.off : a.off+len(s) : a.off+slot]
	copy(b, s)
	a.off += slot
	return b
}

// scribble overwrites the whole buffer with bytes that look like the hex strings the
// mapper produces, so that a record that still points here changes (and may collide).
func (a *c12Arena) scribble(seq int) {
	const hexd = "0123456789abcdef"
	for i := range a.buf {
		a.buf[i] = hexd[(i*7+seq*3+i>>4)&15]
	}
	a.off = 0
}

// toTL builds the event in the worker's reused MetricBytes, all strings inside the arena.
func (e *c12Event) toTL(mb *tlstatshouse.MetricBytes, ar *c12Arena) {
	ar.off = 0
	val, hist, uniq, tags := mb.Value[:0], mb.Histogram[:0], mb.Unique[:0], mb.Tags[:0]
	mb.Reset()
	mb.Name = ar.put(e.metricName)
	if e.hasCounter {
		mb.SetCounter(e.counter)
	}
	if e.values != nil {
		mb.SetValue(append(val, e.values...))
	}
	if e.hist != nil {
		mb.SetHistogram(append(hist, e.hist...))
	}
	if e.uniq != nil {
		mb.SetUnique(append(uniq, e.uniq...))
	}
	if e.ts != 0 {
		mb.SetTs(e.ts)
	}
	for _, t := range e.tags {
		tags = append(tags, tl.DictFieldStringStringBytes{Key: ar.put(t.name), Value: ar.put(t.value)})
	}
	mb.Tags = tags
}

// c12SnapDiff names the first difference between two observations of the same agent.
func c12SnapDiff(a, b c12Snap) (what string, detail string) {
	for k, va := range a.status {
		if vb, ok := b.status[k]; !ok || vb != va {
			return "status-records", fmt.Sprintf("status record %+v had count %g, now %g (present=%v)", k, va, vb, ok)
		}
	}
	for k, vb := range b.status {
		if _, ok := a.status[k]; !ok {
			return "status-records", fmt.Sprintf("status record %+v (count %g) appeared", k, vb)
		}
	}
	for k, ra := range a.rows {
		if rb, ok := b.rows[k]; !ok || rb != ra {
			return "metric-rows", fmt.Sprintf("row %+v changed (present=%v)", k, ok)
		}
	}
	for k := range b.rows {
		if _, ok := a.rows[k]; !ok {
			return "metric-rows", fmt.Sprintf("row %+v appeared", k)
		}
	}
	return "", ""
}

func (e *c12Event) describe() map[string]any {
	tags := []string{}
	for _, t := range e.tags {
		tags = append(tags, fmt.Sprintf("%q=%q", t.name, t.value))
	}
	reasons := []int{}
	for k := range e.reasons {
		reasons = append(reasons, int(k))
	}
	sort.Ints(reasons)
	return map[string]any{"metric": string(e.metricName), "row_id": e.id, "has_counter": e.hasCounter, "counter": fmt.Sprint(e.counter), "values": fmt.Sprint(e.values),
		"histogram": fmt.Sprint(e.hist), "unique": fmt.Sprint(e.uniq), "ts": e.ts, "tags": tags, "applicable_reasons": reasons}
}

// abstraction of an event for the distinct count: shape, not the row id
func (e *c12Event) shape() string {
	var sb strings.Builder
	fmt.Fprintf(&sb, "%s|c=%v:%v|v=%v|h=%v|u=%d|", e.metricName, e.hasCounter, e.counter, e.values, e.hist, len(e.uniq))
	for _, t := range e.tags {
		if string(t.name) == "r" || string(t.name) == "2" {
			sb.WriteString("id,")
			continue
		}
		fmt.Fprintf(&sb, "%q=%q,", t.name, t.value)
	}
	return sb.String()
}

func c12Near(a, b float64) bool {
	// the absolute term only forgives rounding among denormals (a weight of 5e-324 halved is 0)
	return a == b || math.Abs(a-b) <= 1e-9*math.Max(math.Abs(a), math.Abs(b)) || math.Abs(a-b) < 1e-300
}

// c12Cls keeps violation keys stable: how many status records, not which number
func c12Cls(n float64) string {
	switch n {
	case 0:
		return "0"
	case 1:
		return "1"
	}
	return "other"
}

func c12Norm(v string) string {
	n, err := format.AppendValidStringValue(nil, []byte(v))
	if err != nil {
		return v
	}
	return string(n)
}

// ------------------------------------------------------------------ the test

func TestVerifC12(t *testing.T) {
	r := verifkit.Start(t, "C12", "worker")
	defer r.Finish()
	r.SetRule("events over: 5 metric descriptions (mixed, percentiles, resolution 5 and 15, disabled) + unknown, badly encoded and built-in names; counter absent/0/boundary/negative/NaN/Inf/±MaxFloat32(1±1e-9); 0–4 values, histograms (incl. zero weights), uniques, values+uniques, nothing; timestamps now±, far past/future; 1–12 tags drawn from plain (normal, over-long, whitespace, control, invalid UTF-8, corrupted marker), canonical/deprecated names, raw and raw64 (in/out of range, junk), draft, unknown, non-UTF-8 names, string-top, host, environment, duplicates. Every second event takes its parts from a systematic walk over all 36 combinations counter{absent,0,positive} × values{none,some} × histogram{none,zero weights,positive weights} × uniques{none,some} (counters parts.* show each combination judged as valid and invalid); the other half draws them at random. Every event has its own row (unique raw tag). All strings of consecutive events live in one reused buffer that is overwritten after every call; the observation is repeated after the overwrite and at the end of each agent run. Non-trivial = the event carries at least one number; distinct = distinct event shape (row id excluded).")
	r.Assume("the agent is created with agent.MakeAgent and never Run: buckets stay in Shard.SuperQueue where the monitor reads them; the mapping cache is empty, so plain tag values stay strings")
	ms := c12MakeStorage(t)
	r.SetCounter("builtin_metrics_not_receivable", int64(len(c12BuiltinNotReceivable()))) // also fills the list before the workers start
	n := r.N(50000, 2000000)
	workers := r.N(8, 16)
	const perAgent = 200
	r.Parallel(workers, "events", func(w *verifkit.Worker) {
		rnd := w.Rnd
		var a *agent.Agent
		var wk *worker
		var before c12Snap
		var scratch []byte // reused across events, as the receivers do
		var mb tlstatshouse.MetricBytes // reused, as the receivers' batch object is
		ar := &c12Arena{buf: make([]byte, 256<<10)}
		retire := func() {
			if a == nil {
				return
			}
			// end of this agent's run: everything recorded is still what it was
			ar.scribble(-1)
			if what, detail := c12SnapDiff(before, c12Take(a)); what != "" {
				r.Violation("C12/recorded-state-changed-after-return/"+what+"/at-end-of-run", "what was recorded for earlier events changed later: "+detail, map[string]any{"detail": detail})
			}
		}
		for i := 0; i < n/workers; i++ {
			if i%perAgent == 0 {
				retire()
				a, wk = c12NewAgent(t, ms)
				before = c12Take(a)
			}
			id := int32(i%perAgent + 1)
			e := c12Gen(rnd, i, id, uint32(time.Now().Unix()))
			e.toTL(&mb, ar)
			var firstErr error
			args := data_model.HandlerArgs{MetricBytes: &mb, Scratch: &scratch, FirstError: &firstErr}
			switch rnd.IntN(8) {
			case 0:
				args.Scratch = nil // the HTTP receiver calls the handler without a scratch buffer
			case 1:
				args.Host = "conn-host" // the TCP receiver passes the peer's host name
			}
			if r.Guard("C12/panic", func() any { return e.describe() }, func() { wk.HandleMetrics(args) }) {
				a, wk = c12NewAgent(t, ms)
				before = c12Take(a)
				continue
			}
			after := c12Take(a)
			c12Judge(r, w, e, firstErr, before, after)
			// the receive buffers now get the next packet: what was recorded must not move
			ar.scribble(i)
			for j := range mb.Value {
				mb.Value[j] = -12345.678
			}
			for j := range mb.Unique {
				mb.Unique[j] = -987654321
			}
			for j := range mb.Histogram {
				mb.Histogram[j] = [2]float64{-1, 777}
			}
			for j := range scratch {
				scratch[j] = 0xEE
			}
			after2 := c12Take(a)
			if what, detail := c12SnapDiff(after, after2); what != "" {
				wit := e.describe()
				wit["detail"] = detail
				r.Violation("C12/recorded-state-changed-after-return/"+what, "what was recorded for an event changed when the receive buffers were overwritten after the call: "+detail, wit)
			}
			w.Count("events.stability_judged", 1)
			before = after2
			if w.Index == 0 && i < 3 {
				r.Sample(e.describe())
			}
		}
		retire()
		w.Count("arena.overflows", int64(ar.overflow))
	})
}

func c12Judge(r *verifkit.Run, w *verifkit.Worker, e *c12Event, firstErr error, before, after c12Snap) {
	bad := func(key, what string, extra map[string]any) {
		wit := e.describe()
		for k, v := range extra {
			wit[k] = v
		}
		r.Violation("C12/"+key, what, wit)
	}
	// ---- what changed
	var changed []c12RowKey
	for k, ra := range after.rows {
		if rb, ok := before.rows[k]; !ok || rb != ra {
			changed = append(changed, k)
		}
	}
	for k := range before.rows {
		if _, ok := after.rows[k]; !ok {
			changed = append(changed, k)
		}
	}
	var okN, errN, warnN float64
	var errReason int32
	errMetricTag := int32(0)
	var statusDelta []string
	for k, v := range after.status {
		d := v - before.status[k]
		if d == 0 {
			continue
		}
		statusDelta = append(statusDelta, fmt.Sprintf("%+v:%+g", k, d))
		switch {
		case k.status == format.TagValueIDSrcIngestionStatusOKCached:
			okN += d
		case c12Warnings[k.status]:
			warnN += d
		default:
			errN += d
			errReason, errMetricTag = k.status, k.metric
		}
	}
	sort.Strings(statusDelta)
	valid := len(e.reasons) == 0
	{ // which parts the event carried, by verdict of the reference (all 16 × 2 must show up)
		parts := "parts."
		for _, p := range []struct {
			on bool
			s  string
		}{{e.hasCounter && e.counter != 0, "counter"}, {len(e.values) > 0, "values"}, {len(e.hist) > 0, "histogram"}, {len(e.uniq) > 0, "uniques"}} {
			if p.on {
				parts += "+" + p.s
			}
		}
		if valid {
			parts += ".valid"
		} else {
			parts += ".invalid"
		}
		w.Count(parts, 1)
	}
	nontrivial := e.hasCounter || len(e.values)+len(e.hist)+len(e.uniq) > 0
	if e.notJudged != "" && valid {
		// the statement calls a tag value that is not UTF-8 invalid; the code only looks at values of
		// tags that the description contains.  Silent on which: recorded, not judged.
		r.NotJudged(e.notJudged, 1)
		return
	}
	if !valid {
		w.Count("events.invalid_by_reference", 1)
		if len(changed) != 0 {
			bad("rejected-event-changed-a-row", "an event the statement calls invalid changed a row of a metric", map[string]any{"changed_rows": fmt.Sprint(changed), "status_delta": statusDelta})
		}
		switch {
		case errN != 1 || okN != 0:
			bad(fmt.Sprintf("rejected-event-status-count/err=%s,ok=%s", c12Cls(errN), c12Cls(okN)),"an invalid event must leave exactly one ingestion-status record naming the reason", map[string]any{"status_delta": statusDelta})
		case !e.reasons[errReason]:
			bad(fmt.Sprintf("rejected-event-reason/%d", errReason), fmt.Sprintf("the recorded reason %d is none of the reasons that apply to the event", errReason), map[string]any{"status_delta": statusDelta})
		default:
			w.Count(fmt.Sprintf("reason.%d", errReason), 1)
			if e.metric.id != 0 && errMetricTag != e.metric.id {
				bad("rejected-event-status-metric", fmt.Sprintf("the status record names metric %d, the event was for %d", errMetricTag, e.metric.id), map[string]any{"status_delta": statusDelta})
			}
		}
		if firstErr == nil {
			bad("rejected-event-no-error-returned", "HandleMetrics did not report the rejection through FirstError", nil)
		}
		w.Case(nontrivial, "invalid|"+e.shape())
		return
	}
	w.Count("events.valid_by_reference", 1)
	if errN != 0 || okN != 1 {
		bad(fmt.Sprintf("accepted-event-status/err=%s(%d),ok=%s", c12Cls(errN), errReason, c12Cls(okN)),"a valid event must leave exactly one OK ingestion-status record and no error record", map[string]any{"status_delta": statusDelta})
		w.Case(nontrivial, "valid|"+e.shape())
		return
	}
	if firstErr != nil {
		bad("accepted-event-error-returned", "HandleMetrics reported an error for a valid event: "+firstErr.Error(), nil)
	}
	if warnN > 0 {
		w.Count("events.valid_with_warning_records", 1)
	}
	// ---- expected contribution
	me := c12RowKey{e.metric.id, e.id}
	for _, k := range changed {
		if k != me {
			bad("accepted-event-changed-another-row", fmt.Sprintf("a valid event for row %v changed row %v", me, k), map[string]any{"status_delta": statusDelta})
		}
	}
	rb, ra := before.rows[me], after.rows[me]
	var eCount, eSum, eSum2, eMin, eMax float64
	haveVal := false
	zeroWeightCentroid := false
	upd := func(v float64) {
		if !haveVal || v < eMin {
			eMin = v
		}
		if !haveVal || v > eMax {
			eMax = v
		}
		haveVal = true
	}
	counter := 0.0
	if e.hasCounter {
		counter = e.counter
	}
	switch {
	case len(e.uniq) != 0:
		total := float64(len(e.uniq))
		eCount = counter
		if eCount == 0 {
			eCount = total
		}
		for _, u := range e.uniq {
			v := float64(u)
			eSum += v
			eSum2 += v * v
			upd(v)
		}
		if eCount != total {
			eSum, eSum2 = eSum*eCount/total, eSum2*eCount/total
		}
	case len(e.values)+len(e.hist) != 0:
		total := float64(len(e.values))
		for _, h := range e.hist {
			total += h[1]
			if h[1] == 0 {
				zeroWeightCentroid = true
			}
		}
		if total <= 0 {
			// only zero-weight histogram entries: valid by the statement's list, nothing to weigh by
			r.NotJudged("histogram-with-zero-total-weight", 1)
			if rb.count != ra.count {
				bad("zero-weight-event-changed-count", "an event whose values all have weight 0 changed a row count", map[string]any{"before": rb.count, "after": ra.count})
			}
			return
		}
		eCount = counter
		if eCount == 0 {
			eCount = total
		}
		for _, v := range e.values {
			eSum += v
			eSum2 += v * v
			upd(v)
		}
		for _, h := range e.hist {
			eSum += h[0] * h[1]
			eSum2 += h[0] * h[0] * h[1]
			upd(h[0])
		}
		if eCount != total {
			eSum, eSum2 = eSum*eCount/total, eSum2*eCount/total
		}
	default:
		eCount = counter
	}
	if rb.items != 0 {
		bad("harness/row-not-fresh", "row id reused within one agent (harness bug)", nil)
		return
	}
	got := map[string]any{"count": ra.count, "sum": ra.sum, "sumsq": ra.sumsq, "min": ra.min, "max": ra.max, "items": ra.items, "status_delta": statusDelta,
		"want_count": eCount, "want_sum": eSum, "want_sumsq": eSum2, "want_min": eMin, "want_max": eMax}
	if ra.items == 0 {
		bad("accepted-event-left-no-row", "a valid event got an OK status but no row of its metric exists", got)
		w.Case(nontrivial, "valid|"+e.shape())
		return
	}
	if !c12Near(ra.count, eCount) {
		bad("accepted-event-count", fmt.Sprintf("row count %g, the statement's weighting gives %g", ra.count, eCount), got)
	}
	if !c12Near(ra.sum, eSum) {
		bad("accepted-event-sum", fmt.Sprintf("row sum %g, the statement's weighting gives %g", ra.sum, eSum), got)
	} else if !c12Near(ra.sumsq, eSum2) {
		bad("accepted-event-sumsquare", fmt.Sprintf("row sum of squares %g, reference %g", ra.sumsq, eSum2), got)
	}
	if haveVal {
		if zeroWeightCentroid {
			r.NotJudged("min-max-with-zero-weight-histogram-entry", 1)
		} else if !ra.set || ra.min != eMin || ra.max != eMax {
			bad("accepted-event-min-max", fmt.Sprintf("row min/max %g/%g (set=%v), values have %g/%g", ra.min, ra.max, ra.set, eMin, eMax), got)
		}
	} else if ra.set {
		bad("accepted-event-min-max", "a counter-only event set min/max of the row", got)
	}
	if len(e.uniq) != 0 {
		setU := map[int64]bool{}
		for _, u := range e.uniq {
			setU[u] = true
		}
		if ra.uniq != len(setU) {
			bad("accepted-event-unique-items", fmt.Sprintf("unique sketch holds %d items, the event had %d distinct", ra.uniq, len(setU)), got)
		}
	} else if ra.uniq != 0 {
		bad("accepted-event-unique-items", "an event without uniques added items to the unique sketch", got)
	}
	// percentile digest: when one exists its weight is the row's count
	// (the digest is fed value by value with weight·count/total: that product is only meaningful
	// while count/total and every weight stay well inside the float range)
	denormal := eCount < 1e-150
	totalW := float64(len(e.values))
	for _, h := range e.hist {
		totalW += h[1]
		if h[1] > 0 && h[1] < 1e-150 {
			denormal = true
		}
	}
	if totalW > 0 && (eCount/totalW < 1e-150 || eCount/totalW > 1e150) {
		denormal = true
	}
	if denormal && (ra.hasDigest || e.metric.kind == format.MetricKindMixedPercentiles || e.metric.kind == format.MetricKindValuePercentiles) {
		// weights below the normal float range: count/total overflows or vanishes inside the digest
		r.NotJudged("percentile-digest-with-denormal-weights", 1)
	} else if ra.hasDigest {
		w.Count("rows.with_digest", 1)
		hasP := e.metric.kind == format.MetricKindMixedPercentiles || e.metric.kind == format.MetricKindValuePercentiles
		if !hasP {
			bad("digest-on-metric-without-percentiles", "a percentile digest was built for a metric whose description has no percentiles", got)
		} else if !c12Near(ra.digestW, eCount) {
			got["digest_weight"] = ra.digestW
			bad("digest-weight", fmt.Sprintf("percentile digest weighs %g, row count is %g", ra.digestW, eCount), got)
		}
	} else if (e.metric.kind == format.MetricKindMixedPercentiles || e.metric.kind == format.MetricKindValuePercentiles) && haveVal && eMin != eMax && len(e.uniq) == 0 {
		bad("digest-missing", "a metric with percentiles received different values but the row has no digest", got)
	}
	// ---- the row's tags
	if ra.tagsDifferBetweenItems {
		e.tagsJudgeable = false
	}
	if e.tagsJudgeable && ra.items == 1 {
		for idx := int32(0); idx < format.MaxTags; idx++ {
			wi, ws := e.wantTags[idx], e.wantSTags[idx]
			if idx == format.StringTopTagIndexV3 {
				continue
			}
			if ra.tags[idx] != wi || ra.stags[idx] != ws {
				bad("accepted-event-tag", fmt.Sprintf("tag %d of the row is (%d,%q), the event gives (%d,%q)", idx, ra.tags[idx], ra.stags[idx], wi, ws), got)
				break
			}
		}
		wantTop := ""
		if e.top != "" {
			pi, ps := c12Place(e.top)
			wantTop = fmt.Sprintf("%d/%q", pi, ps)
		}
		if ra.tops != wantTop {
			bad("accepted-event-string-top", fmt.Sprintf("string-top entries of the row are %q, the event gives %q", ra.tops, wantTop), got)
		}
		w.Count("events.tags_judged", 1)
	} else {
		w.Count("events.tags_not_judged_set_twice", 1)
	}
	w.Case(nontrivial, "valid|"+e.shape())
}
