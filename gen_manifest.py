#!/usr/bin/env python3
"""Regenerates /verif/MANIFEST.json from checks.d/*.json (one spec per claimed property)."""
import json, glob, os, subprocess
V = os.path.dirname(os.path.abspath(__file__))
props = [json.loads(l) for l in open(os.path.join(V, "properties.jsonl"))]
specs = {os.path.basename(f)[:-5]: json.load(open(f)) for f in sorted(glob.glob(os.path.join(V, "checks.d", "*.json")))}
na_reasons = {}
try:
    na_reasons = json.load(open(os.path.join(V, "not_applicable.json")))
except OSError:
    pass
hooks_commits = []
try:
    hooks_commits = [l.split()[0] for l in open(os.path.join(V, "MANIFEST.hooks")) if l.strip() and not l.startswith("#")]
except OSError:
    pass
claimed = None
try:
    claimed = set(l.split()[0] for l in open(os.path.join(V, "claimed.txt")) if l.strip() and not l.startswith("#"))
except OSError:
    pass
checks, na = [], []
for p in props:
    cid = p["id"]
    s = specs.get(cid)
    if claimed is not None and cid not in claimed:
        s = None
    if not s or s.get("disabled"):
        na.append({"property_id": cid, "reason": na_reasons.get(cid, (s or {}).get("disabled_reason", "check not built yet in this round; no claim is made"))})
        continue
    c = {
        "property_id": cid,
        "quick_cmd": "./check %s --tier quick" % cid,
        "thorough_cmd": "./check %s --tier thorough" % cid,
        "evidence_file": "/verif/evidence/%s.json" % cid,
        "replay_cmd_template": "./check %s --replay {path}" % cid,
        "engine": s.get("engine", "harness"),
        "level_claimed": {"category": s.get("level", "exploration"), "text": s["level_text"], "design_ref": "DESIGN.md §6 %s" % cid},
        "level_note": s["level_note"],
        "technique": s["technique"],
    }
    checks.append(c)
engines = {}
for cid, s in specs.items():
    if claimed is not None and cid not in claimed:
        continue
    e = engines.setdefault(s.get("engine", "harness"), {"name": s.get("engine", "harness"), "path": "/verif/harness", "serves_properties": [], "kind_free_text": s.get("engine_text", "in-package Go test harness injected with go test -overlay; monitors and oracles from verifkit")})
    e["serves_properties"].append(cid)
m = {
    "version": 1,
    "setup_cmd": "./check --setup",
    "hooks": {
        "guard": "verif",
        "enable": "go test -c -tags verif -overlay <harness files> (see /verif/check); hook call sites compile to no-ops without the tag",
        "baseline_off_cmd": "cd /repo && GOFLAGS=-mod=mod GOPROXY=off go test -vet=off -count=1 -timeout 25m ./...",
        "source_commits": hooks_commits,
        "add_only": True,
    },
    "engines": list(engines.values()),
    "checks": checks,
    "notes": "Runtime monitoring only: every check runs the real code from /repo's working tree under generated workloads with monitors (reference models, conservation/ordering/exactly-once oracles over recorded histories, crash/fault injection, the Go race detector). Verdicts: held on what was observed / violated / inconclusive (exit 3). See DESIGN.md.",
    "not_applicable": na,
}
json.dump(m, open(os.path.join(V, "MANIFEST.json"), "w"), indent=1)
print("MANIFEST.json: %d checks, %d not claimed" % (len(checks), len(na)))
